#!/venv/bin/python
"""Build seeded/KILLMATRIX.md from seeded/*/meta.json."""
import glob
import json
import os

VERIF = os.path.dirname(os.path.dirname(os.path.abspath(__file__)))
rows = []
for f in sorted(glob.glob(os.path.join(VERIF, 'seeded', '*', 'meta.json'))):
    m = json.load(open(f))
    notes = (m.get('needs_to_manifest') or '').strip().splitlines()
    title = next((l.strip('# ').strip() for l in notes if l.strip()), '')
    rows.append((m['seed_id'], m['breaks_property'], ', '.join(m.get('caught_by', [])) or '**none**',
                 ', '.join(sorted(m.get('checks', {}))), title[:110]))
with open(os.path.join(VERIF, 'seeded', 'KILLMATRIX.md'), 'w') as out:
    out.write('# Seeded property-breaking changes and the checks that catch them\n\n'
              'Each change was produced independently (sub-agent given only the property text), '
              'passes the pinned suite (301 tests) and comes with a demonstration that fails with '
              'the change and passes without it; both were re-confirmed by `tools/seed.py` in a '
              'scratch worktree.  "caught by" = quick-tier checks that exit 1 with a VIOLATION line '
              'on the changed tree (of the checks listed under "checks run").\n\n'
              '| seed | breaks | caught by | checks run | change |\n|---|---|---|---|---|\n')
    for r in rows:
        out.write('| ' + ' | '.join(r) + ' |\n')
    missed = [r for r in rows if r[2] == '**none**']
    out.write(f'\n{len(rows)} changes, {len(rows) - len(missed)} caught by at least one check, '
              f'{len(missed)} not caught.\n')
print(open(os.path.join(VERIF, 'seeded', 'KILLMATRIX.md')).read())
