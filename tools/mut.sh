#!/bin/bash
# usage: tools/mut.sh <patch.diff> [--notests] <prop> [<prop>...]
# Applies a patch to /repo, runs the pinned suite and the quick checks, reverts.
patch=$1; shift
tests=1
if [ "$1" = "--notests" ]; then tests=0; shift; fi
trap 'git -C /repo checkout -- . 2>/dev/null' EXIT
git -C /repo apply "$patch" || { echo "PATCH-FAILED $patch"; exit 3; }
if [ $tests = 1 ]; then
  (cd /repo && /venv/bin/python -m pytest -q -p no:cacheprovider --no-cov 2>&1 | tail -1 | sed 's/^/SUITE: /')
fi
for p in "$@"; do
  out=$(/venv/bin/python /verif/mc/run.py $p --tier quick 2>&1); rc=$?
  echo "CHECK $p exit=$rc $(echo "$out" | grep -m1 -E 'VIOLATION|HARNESS-ERROR' )"
done
