#!/bin/bash
# usage: tools/round.sh <round-dir> <round-tag> <prop> [extra checks]   e.g. tools/round.sh /tmp/r8/out r8 C16
# confirms each <round-dir>/<prop>/m<k> with tools/seed.py as <prop>-<tag>m<k>
dir=$1; tag=$2; prop=$3; shift 3
extra=$1
for d in $dir/$prop/m*; do
  k=$(basename $d)
  [ -f $d/patch.diff ] || { echo "$prop $k: no patch"; continue; }
  checks=$prop; [ -n "$extra" ] && checks="$prop,$extra"
  /verif/tools/seed.py $d $prop-$tag$k $prop --checks $checks 2>&1 | grep -v "^WARNING conda"
done
