#!/bin/bash
# usage: tools/run_all.sh quick|thorough [props...]; prints one line per property
tier=$1; shift
props=${@:-C01 C02 C03 C04 C05 C06 C07 C08 C09 C10 C11 C12 C13 C14 C15 C16 C17 C18 C19 C20}
for p in $props; do
  s=$(date +%s)
  out=$(/venv/bin/python /verif/mc/run.py $p --tier $tier 2>&1); rc=$?
  e=$(date +%s)
  echo "$p exit=$rc $((e-s))s :: $(echo "$out" | grep -E "^$p tier|VIOLATION|HARNESS|KNOWN|WARNING" | tr '\n' ' ')"
done
