#!/bin/bash
# usage: tools/mutwt.sh <patch.diff> [--notests] <prop> [<prop>...]
# Tests a patch in a scratch worktree of /repo (never touches /repo's working tree):
# runs the pinned suite there, then the quick checks with VERIF_REPO pointing at it.
patch=$(realpath "$1"); shift
tests=1
if [ "$1" = "--notests" ]; then tests=0; shift; fi
wt=$(mktemp -d /tmp/mutwt-XXXXXX)
ev=$(mktemp -d /tmp/mutev-XXXXXX)
cleanup() { git -C /repo worktree remove --force "$wt" 2>/dev/null; rm -rf "$wt" "$ev"; }
trap cleanup EXIT
git -C /repo worktree add -q --detach "$wt" HEAD || exit 3
git -C "$wt" apply "$patch" || { echo "PATCH-FAILED $patch"; exit 3; }
if [ $tests = 1 ]; then
  (cd "$wt" && /venv/bin/python -m pytest -q -p no:cacheprovider --no-cov 2>&1 | tail -1 | sed 's/^/SUITE: /')
fi
for p in "$@"; do
  out=$(VERIF_REPO="$wt" VERIF_EVIDENCE_DIR="$ev" VERIF_REPLAY_DIR="$ev/replays" /venv/bin/python /verif/mc/run.py $p --tier quick 2>&1); rc=$?
  echo "CHECK $p exit=$rc $(echo "$out" | grep -m1 -E 'VIOLATION|HARNESS-ERROR' ) $(echo "$out" | grep -m1 'clause=' | cut -c1-200)"
done
