#!/venv/bin/python
"""Re-run every kept seeded change against the current checks.

usage: tools/rekill.py [--only PREFIX] [--jobs N]
For each /verif/seeded/<id>/ with patch.diff: tools/seed.py on it with the check
of the property it breaks (plus the checks that caught it before).  Prints one
line per seed and rewrites meta.json; exits 1 if a seed is no longer caught."""
import glob
import json
import os
import subprocess
import sys

VERIF = os.path.dirname(os.path.dirname(os.path.abspath(__file__)))
only = sys.argv[sys.argv.index('--only') + 1] if '--only' in sys.argv else ''
bad = []
for d in sorted(glob.glob(os.path.join(VERIF, 'seeded', '*'))):
    sid = os.path.basename(d)
    if not os.path.isdir(d) or not sid.startswith(only) or sid.startswith('revert-'):
        continue
    m = json.load(open(os.path.join(d, 'meta.json')))
    prop = m['breaks_property']
    checks = sorted(set([prop] + list(m.get('caught_by', []))))
    r = subprocess.run([os.path.join(VERIF, 'tools', 'seed.py'), d, sid, prop,
                        '--checks', ','.join(checks)], capture_output=True, text=True)
    m2 = json.load(open(os.path.join(d, 'meta.json')))
    caught = m2.get('caught_by', [])
    print(f'{sid}: confirmed={r.returncode == 0} caught_by={caught}', flush=True)
    if r.returncode != 0 or not caught:
        bad.append(sid)
print('NOT CAUGHT OR NOT CONFIRMED:', bad)
sys.exit(1 if bad else 0)
