#!/venv/bin/python
"""Confirm a seeded property-breaking change and run the checks against it.

usage: tools/seed.py <src-dir> <seed-id> <property> [--checks C01,C02,...] [--tier quick]

<src-dir> holds patch.diff, demo.py, notes.md (as written by a sub-agent).
Everything is done in a scratch worktree of /repo under /tmp (removed at the
end); /repo's working tree is never touched.  Steps:
  1. patch applies to a clean checkout of /repo HEAD
  2. the pinned test suite passes WITH the patch
  3. demo.py fails WITH the patch, passes WITHOUT it
  4. the listed quick checks are run with VERIF_REPO=<worktree>
If 1-3 hold, the change is kept as /verif/seeded/<seed-id>/ with meta.json
recording what was run and which checks caught it.
"""

import argparse
import json
import os
import shutil
import subprocess
import sys
import tempfile

PY = '/venv/bin/python'
VERIF = os.path.dirname(os.path.dirname(os.path.abspath(__file__)))


def sh(cmd, cwd=None, env=None, timeout=3600):
    r = subprocess.run(cmd, cwd=cwd, env=env, capture_output=True, text=True, timeout=timeout,
                       shell=isinstance(cmd, str))
    return r.returncode, r.stdout + r.stderr


def main():
    ap = argparse.ArgumentParser()
    ap.add_argument('src')
    ap.add_argument('seed_id')
    ap.add_argument('prop')
    ap.add_argument('--checks', default='')
    ap.add_argument('--tier', default='quick')
    ap.add_argument('--nokeep', action='store_true')
    a = ap.parse_args()
    checks = [c for c in a.checks.split(',') if c] or [a.prop]
    patch = os.path.join(a.src, 'patch.diff')
    demo = os.path.join(a.src, 'demo.py')
    wt = tempfile.mkdtemp(prefix='seedwt-', dir='/tmp')
    ev = tempfile.mkdtemp(prefix='seedev-', dir='/tmp')
    os.rmdir(wt)
    meta = {'seed_id': a.seed_id, 'breaks_property': a.prop, 'ran': []}
    try:
        rc, out = sh(['git', '-C', '/repo', 'worktree', 'add', '-q', '--detach', wt, 'HEAD'])
        assert rc == 0, out
        env = dict(os.environ, PYTHONPATH=wt, PYTHONHASHSEED='0')
        # demo without patch
        rc0, out0 = sh([PY, demo], cwd=wt, env=env, timeout=900)
        meta['ran'].append({'cmd': 'demo.py on unmodified tree', 'exit': rc0})
        rc, out = sh(['git', '-C', wt, 'apply', patch])
        meta['ran'].append({'cmd': 'git apply patch.diff', 'exit': rc})
        if rc != 0:
            print('PATCH DOES NOT APPLY', out)
            return 3
        rcs, outs = sh(f'{PY} -m pytest -q -p no:cacheprovider --no-cov 2>&1 | tail -3', cwd=wt,
                       env=dict(os.environ))
        suite_line = outs.strip().splitlines()[-1] if outs.strip() else ''
        meta['ran'].append({'cmd': 'pytest (pinned suite) with patch', 'result': suite_line})
        rc1, out1 = sh([PY, demo], cwd=wt, env=env, timeout=900)
        meta['ran'].append({'cmd': 'demo.py with patch', 'exit': rc1})
        suite_ok = ' passed' in suite_line and 'failed' not in suite_line and 'error' not in suite_line
        confirmed = suite_ok and rc0 == 0 and rc1 != 0
        print(f'[{a.seed_id}] suite: {suite_line} | demo clean={rc0} patched={rc1} | '
              f'confirmed={confirmed}')
        if not confirmed:
            if rc0 != 0:
                print('demo output on clean tree:', out0[-600:])
            if rc1 == 0:
                print('demo passes with the patch')
        caught = {}
        for c in checks:
            envc = dict(os.environ, VERIF_REPO=wt, VERIF_EVIDENCE_DIR=ev,
                        VERIF_REPLAY_DIR=os.path.join(ev, 'replays'))
            rcc, outc = sh([PY, os.path.join(VERIF, 'mc', 'run.py'), c, '--tier', a.tier],
                           env=envc, timeout=7200)
            line = next((l for l in outc.splitlines() if 'VIOLATION' in l or 'HARNESS' in l), '')
            clause = next((l.strip() for l in outc.splitlines() if l.strip().startswith('clause=')), '')
            caught[c] = {'exit': rcc, 'line': line.replace(ev, '<tmp>'), 'first': clause[:240]}
            print(f'   check {c}: exit={rcc} {clause[:160]}')
        meta['checks'] = caught
        meta['caught_by'] = sorted(c for c, r in caught.items() if r['exit'] == 1)
        meta['tier'] = a.tier
        notes = os.path.join(a.src, 'notes.md')
        if os.path.exists(notes):
            meta['needs_to_manifest'] = open(notes).read()[:1500]
        if confirmed and not a.nokeep:
            dst = os.path.join(VERIF, 'seeded', a.seed_id)
            os.makedirs(dst, exist_ok=True)
            for f in ('patch.diff', 'demo.py', 'notes.md'):
                if os.path.exists(os.path.join(a.src, f)) and \
                        os.path.realpath(os.path.join(a.src, f)) != os.path.realpath(os.path.join(dst, f)):
                    shutil.copy(os.path.join(a.src, f), os.path.join(dst, f))
            with open(os.path.join(dst, 'meta.json'), 'w') as f:
                json.dump(meta, f, indent=1)
                f.write('\n')
        return 0 if confirmed else 4
    finally:
        sh(['git', '-C', '/repo', 'worktree', 'remove', '--force', wt])
        shutil.rmtree(wt, ignore_errors=True)
        shutil.rmtree(ev, ignore_errors=True)


if __name__ == '__main__':
    sys.exit(main())
