#!/venv/bin/python
"""Regenerate /verif/MANIFEST.json from the property modules that exist.

Properties without a module under mc/props are listed under not_applicable
with the reason 'no check built yet' so the file is valid at every commit."""

import importlib
import json
import os
import sys

HERE = os.path.dirname(os.path.abspath(__file__))
VERIF = os.path.dirname(HERE)
sys.path.insert(0, VERIF)

PY = '/venv/bin/python'

ENGINES = [
    {'name': 'E1-ctxspace', 'path': 'mc/e1.py',
     'serves_properties': ['C01', 'C02', 'C03', 'C04', 'C05', 'C06', 'C07', 'C08', 'C09', 'C10',
                           'C15', 'C16', 'C18', 'C20'],
     'kind_free_text': 'exhaustive enumeration of the boolean-table input space (all tables up to '
                       'a cell bound, deviation-bounded neighbourhoods of scales, wide embeddings) '
                       'on the real Context/Lattice, compared with reference model R1 '
                       '(mc/refmodel.py)'},
    {'name': 'E1h-callhist', 'path': 'mc/hist2.py',
     'serves_properties': ['C02', 'C03', 'C05', 'C06', 'C07', 'C08', 'C09', 'C10', 'C16', 'C18',
                           'C20'],
     'kind_free_text': 'bounded exhaustive exploration of call histories on one freshly built '
                       'Context/Lattice object: every ordered pair of calls of the property\'s '
                       'query family (all arguments over the table), and every foreign call '
                       'followed by the whole family in both orders, on every table up to 9 cells '
                       'with a non-chain lattice; differential oracle (answer after a history == '
                       'answer as the only call on a fresh object, which E1 compares with R1)'},
    {'name': 'E2-histspace', 'path': 'mc/explore.py',
     'serves_properties': ['C13', 'C14', 'C17'],
     'kind_free_text': 'explicit-state breadth-first search over the real Definition transition '
                       'functions with state hashing, run to fixpoint over a bounded name universe, '
                       'against the ordered-table model R2 (mc/tablemodel.py); read-only calls '
                       '(derivations, texts, handed-out containers) are transitions too, so hidden '
                       'caches become distinct states that the search expands'},
    {'name': 'E3-envspace', 'path': 'mc/env.py',
     'serves_properties': ['C11', 'C12', 'C17', 'C19'],
     'kind_free_text': 'exhaustive enumeration of environment answers and configurations: all '
                       'hash-iteration orders of a bounded label set (HashLabel seam), set-order '
                       'seam for id-hashed sets, format x encoding x dialect x option with bounded '
                       'deviations, single/double corruption (fault) enumeration, fresh '
                       'interpreter processes under several PYTHONHASHSEED'},
]


def main():
    props = [json.loads(l) for l in open(os.path.join(VERIF, 'properties.jsonl'))]
    checks, na = [], []
    for p in props:
        pid = p['id']
        if not os.path.exists(os.path.join(HERE, 'props', f'{pid}.py')):
            na.append({'property_id': pid, 'reason': 'no check built yet (work in progress); '
                       'see DESIGN.md section 4 for the planned exploration'})
            continue
        mod = importlib.import_module(f'mc.props.{pid}')
        if getattr(mod, 'NOT_APPLICABLE', None):
            na.append({'property_id': pid, 'reason': mod.NOT_APPLICABLE})
            continue
        checks.append({
            'property_id': pid,
            'quick_cmd': f'{PY} /verif/mc/run.py {pid} --tier quick',
            'thorough_cmd': f'{PY} /verif/mc/run.py {pid} --tier thorough',
            'evidence_file': f'/verif/evidence/{pid}.json',
            'replay_cmd_template': f'{PY} /verif/mc/run.py --replay {{path}}',
            'engine': getattr(mod, 'ENGINE', 'E1-ctxspace'),
            'level_claimed': {
                'category': mod.LEVEL,
                'text': getattr(mod, 'LEVEL_TEXT', None) or (
                    'Bounded exhaustive exploration on the real code: the property is decided for '
                    'EVERY case of a finite, explicitly stated space (no sampling), each case '
                    'compared clause by clause with a reference model / differential oracle; the '
                    'claim is "holds for all inputs, histories and configurations up to the bound", '
                    'which is the right level for a universally quantified property of a '
                    'sequential library whose tests are example based. Space: ' + mod.RULE),
                'design_ref': f'DESIGN.md section 4 {pid}',
            },
            'level_note': '; '.join(mod.ASSUMPTIONS),
            'technique': getattr(mod, 'TECHNIQUE',
                                 'bounded exhaustive exploration of the input space on the real '
                                 'code against a reference model (explicit-state, no sampling)'),
        })
    doc = {
        'version': 1,
        'setup_cmd': f'{PY} -m compileall -q /verif/mc && {PY} /verif/mc/run.py --selftest',
        'hooks': {
            'guard': 'CONCEPTS_VERIF',
            'enable': 'no source hooks are needed: both nondeterminism seams (string hash order, '
                      'id-hashed set order) are installed from the harness side; checks import '
                      'concepts from /repo\'s working tree directly',
            'baseline_off_cmd': 'cd /repo && /venv/bin/python -m pytest -ra -q -p no:cacheprovider '
                                '--timeout=900 --continue-on-collection-errors',
            'source_commits': [],
            'add_only': True,
        },
        'engines': ENGINES,
        'checks': checks,
        'not_applicable': na,
        'notes': 'All checks are bounded exhaustive explorations (model-checking family) run '
                 'directly on the implementation; bounds and completed strata are reported in '
                 'each evidence file. known_findings.json lists repaired defects (fixed:) and, if '
                 'any, recorded findings.',
    }
    with open(os.path.join(VERIF, 'MANIFEST.json'), 'w') as f:
        json.dump(doc, f, indent=1)
        f.write('\n')
    print(f'MANIFEST.json: {len(checks)} checks, {len(na)} not claimed')


if __name__ == '__main__':
    main()
