#!/venv/bin/python
"""CLI of the bounded-exhaustive explorers.

  run.py Cxx [--tier quick|thorough]     explore, write evidence/Cxx.json
  run.py --replay <file>                 re-execute one recorded case, no explorer
  run.py --selftest                      R1/R2 internal cross-checks (setup_cmd)

exit 0: property held on everything explored; 1: VIOLATION line printed;
2: harness error (never a VIOLATION line).
"""

import argparse
import importlib
import json
import os
import sys
import traceback

HERE = os.path.dirname(os.path.abspath(__file__))
sys.path.insert(0, os.path.dirname(HERE))

from mc import common  # noqa: E402

VARY_HASHSEED = {'C17'}


def main(argv=None):
    ap = argparse.ArgumentParser()
    ap.add_argument('prop', nargs='?')
    ap.add_argument('--tier', default=os.environ.get('VERIF_TIER', 'quick'),
                    choices=['quick', 'thorough'])
    ap.add_argument('--replay')
    ap.add_argument('--selftest', action='store_true')
    ap.add_argument('--worker-stage', action='store_true')
    args = ap.parse_args(argv)

    try:
        if args.selftest:
            common.pin_environment()
            from mc import selftest
            return selftest.main()
        if args.replay:
            with open(args.replay) as f:
                v = json.load(f)
            prop = v['property']
            common.pin_environment()
            mod = importlib.import_module(f'mc.props.{prop}')
            if v.get('schedule') == 'serial-whole-check':
                ok, out = common.serial_confirm(prop, v.get('tier', 'quick'))
                print(out[-3000:])
                return common.EXIT_VIOLATION if ok else common.EXIT_OK
            if args.worker_stage:
                from mc import e1
                vs = e1.replay_worker(mod, v)
            else:
                vs = mod.replay(v)
                if not vs and isinstance(v.get('case'), dict) and v['case'].get('worker') \
                        and hasattr(mod, 'run_shard'):
                    # process-global library state may reach further back than the recorded
                    # recent predecessors: re-execute the whole history of the worker process -
                    # in a process of its own, because the attempt above has itself left
                    # (correct) entries in whatever process-global state the library keeps
                    import subprocess
                    r = subprocess.run([sys.executable, os.path.abspath(__file__), '--replay',
                                        args.replay, '--worker-stage'], timeout=3600)
                    return r.returncode
            same = [x for x in vs if x['clause'] == v['clause']] or vs
            if same:
                x = same[0]
                print(f"clause={x['clause']}")
                print(f"expected={json.dumps(x['expected'])[:2000]}")
                print(f"observed={json.dumps(x['observed'])[:2000]}")
                print(f'VIOLATION property={prop} replay={args.replay}')
                return common.EXIT_VIOLATION
            print(f'replay {args.replay}: property {prop} holds on this case')
            return common.EXIT_OK
        if not args.prop:
            ap.error('property id required')
        common.pin_environment(vary_hashseed=False)
        mod = importlib.import_module(f'mc.props.{args.prop}')
        return mod.main(args.tier)
    except common.HarnessError as e:
        print(f'HARNESS-ERROR: {e}', file=sys.stderr)
        return common.EXIT_HARNESS
    except Exception:
        traceback.print_exc()
        print('HARNESS-ERROR: unexpected exception in the checker', file=sys.stderr)
        return common.EXIT_HARNESS


if __name__ == '__main__':
    sys.exit(main())
