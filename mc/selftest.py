"""Setup-time self test: R1 and R2 against hand-computed facts and each other."""

from . import space
from .refmodel import Ref, relations_ref


def main():
    # the 4-element diamond M_2 from the nominal scale
    r = Ref(space.scale('nominal', 2))
    assert len(r.concepts) == 4 and r.nontrivial()
    assert r.join([1, 2]) == 3 and r.meet([1, 2]) == 0
    # contranominal scale: boolean lattice
    r = Ref(space.scale('contranominal', 3))
    assert len(r.concepts) == 8
    assert sum(len(r.upper_covers(i)) for i in range(8)) == 12
    # chain
    r = Ref(space.scale('ordinal', 4))
    assert len(r.concepts) == 4 and not r.nontrivial()
    # every table up to 3x3: the enumerations agree (raises RefError otherwise)
    count = 0
    for sh in space.s_shards(9):
        for n, m, rows, tag in space.tables_of_shard(sh):
            ref = Ref(rows)
            ref.concepts
            for i in range(len(ref.concepts)):
                assert sorted(ref.upper_covers(i)) == ref._covers_scan(i, True)
                assert sorted(ref.lower_covers(i)) == ref._covers_scan(i, False)
            if n * m <= 6:
                from .refmodel import powerset
                for a in powerset(range(n)):
                    assert ref.intent_of(a) == ref.intent_of_sets(a)
                for b in powerset(range(m)):
                    assert ref.extent_of(b) == ref.extent_of_sets(b)
            count += 1
    assert count == space.count_tables(space.shapes(9)), count
    assert relations_ref([(True, False), (False, True)]) == [('complement', 0, 1)]
    assert relations_ref([(True, True), (False, True), (False, False)]) == [('implication', 0, 1)]
    try:
        from . import tablemodel
    except ImportError:
        tablemodel = None
    if tablemodel is not None:
        tablemodel.selftest()
    print(f'selftest ok ({count} tables cross-checked in R1)')
    return 0
