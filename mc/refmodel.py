"""R1: Formal Concept Analysis by the textbook definitions.

Deliberately boring: a context is a list of rows of bools, sets are Python
frozensets of *positions*, the order is set inclusion, bounds and covers are
found by search.  No bitsets, no ints-as-sets, no heaps, nothing shared with
the implementation under test.  Nothing here imports ``concepts``.
"""

import itertools


class RefError(Exception):
    """R1-internal disagreement: a harness error, never a violation."""


def powerset(items):
    items = list(items)
    for r in range(len(items) + 1):
        yield from itertools.combinations(items, r)


def shortlex_key(positions):
    """(size, sorted positions) – fewer first, ties by position."""
    t = tuple(sorted(positions))
    return (len(t), t)


def longlex_key(positions):
    t = tuple(sorted(positions))
    return (-len(t), t)


class Ref:
    """Reference FCA of one boolean table."""

    POWERSET_LIMIT = 12   # primary enumeration over an axis of at most this size
    CROSS_LIMIT = 8       # second powerset enumeration when the other axis is this small

    def __init__(self, rows):
        self.rows = [tuple(bool(b) for b in r) for r in rows]
        self.n = len(self.rows)
        self.m = len(self.rows[0]) if self.rows else 0
        self.G = frozenset(range(self.n))
        self.M = frozenset(range(self.m))
        self._row_int = [frozenset(j for j in range(self.m) if self.rows[i][j])
                         for i in range(self.n)]
        self._col_ext = [frozenset(i for i in range(self.n) if self.rows[i][j])
                         for j in range(self.m)]
        self._concepts = None
        self._leq = None

    # -------------------------------------------------- derivation
    def intent_of(self, objs):
        """A' = properties every object of A has (by definition)."""
        objs = list(objs)
        return frozenset(j for j in range(self.m)
                         if all(self.rows[i][j] for i in objs))

    def extent_of(self, props):
        """B' = objects having every property of B (by definition)."""
        props = list(props)
        return frozenset(i for i in range(self.n)
                         if all(self.rows[i][j] for j in props))

    def intent_of_sets(self, objs):
        """A' as the intersection of the rows' property sets (used on wide tables,
        cross-checked against the definitional form in the self test)."""
        res = self.M
        for i in objs:
            res = res & self._row_int[i]
        return res

    def extent_of_sets(self, props):
        res = self.G
        for j in props:
            res = res & self._col_ext[j]
        return res

    def closure_objs(self, objs):
        return self.extent_of(self.intent_of(objs))

    def closure_props(self, props):
        return self.intent_of(self.extent_of(props))

    def is_concept(self, extent, intent):
        return (self.intent_of(extent) == frozenset(intent)
                and self.extent_of(intent) == frozenset(extent))

    # -------------------------------------------------- concepts
    def _by_object_subsets(self):
        return {(self.closure_objs(a), self.intent_of(a)) for a in powerset(range(self.n))}

    def _by_property_subsets(self):
        return {(self.extent_of(b), self.closure_props(b)) for b in powerset(range(self.m))}

    def _by_intersection_closure(self):
        """Intents = closure of the row intents under intersection, plus M."""
        intents = {self.M}
        for ri in set(self._row_int):
            intents |= {ri & x for x in intents}
        return {(self.extent_of(b), b) for b in intents}

    def _by_extent_closure(self):
        """Extents = closure of the column extents under intersection, plus G."""
        extents = {self.G}
        for ce in set(self._col_ext):
            extents |= {ce & x for x in extents}
        return {(a, self.intent_of(a)) for a in extents}

    @property
    def concepts(self):
        """List of (extent, intent) frozenset pairs in shortlex order of extents."""
        if self._concepts is None:
            methods = []
            small = min(self.n, self.m)
            if small <= self.POWERSET_LIMIT:
                if self.n <= self.m:
                    methods.append(self._by_object_subsets())
                    if self.m <= self.CROSS_LIMIT:
                        methods.append(self._by_property_subsets())
                else:
                    methods.append(self._by_property_subsets())
                    if self.n <= self.CROSS_LIMIT:
                        methods.append(self._by_object_subsets())
                methods.append(self._by_intersection_closure())
            else:
                methods.append(self._by_intersection_closure())
                methods.append(self._by_extent_closure())
            first = methods[0]
            for other in methods[1:]:
                if other != first:
                    raise RefError('R1 concept enumerations disagree on %r' % (self.rows,))
            self.methods_used = len(methods)
            self._concepts = sorted(first, key=lambda c: shortlex_key(c[0]))
            self._index = {c[0]: i for i, c in enumerate(self._concepts)}
        return self._concepts

    def index_of_extent(self, extent):
        self.concepts
        return self._index[frozenset(extent)]

    # -------------------------------------------------- order
    @property
    def leq(self):
        """leq[i][j] <=> extent_i subset of extent_j."""
        if self._leq is None:
            cs = self.concepts
            self._leq = [[a[0] <= b[0] for b in cs] for a in cs]
            # cross-check with the dual formulation on intents
            for i, a in enumerate(cs):
                for j, b in enumerate(cs):
                    if self._leq[i][j] != (b[1] <= a[1]):
                        raise RefError('extent/intent order disagree')
        return self._leq

    BIG = 64    # above this many concepts covers are found by the size-ordered scan

    def upper_covers(self, i):
        """Concepts j > i with nothing strictly between (by search)."""
        leq = self.leq
        k = len(leq)
        if k > self.BIG:
            return self._covers_scan(i, up=True)
        ups = [j for j in range(k) if j != i and leq[i][j]]
        return [j for j in ups
                if not any(z != i and z != j and leq[i][z] and leq[z][j] for z in ups)]

    def _covers_scan(self, i, up):
        """Covers of i for big lattices: scan the strict upper (lower) bounds by
        increasing distance in extent size; j is a cover iff no cover found so far
        lies between.  (If some z were strictly between i and j, a minimal such z
        would be a cover of i, found earlier, with z <= j.)  Cross-checked against
        the plain search in the self test."""
        leq = self.leq
        k = len(leq)
        size = [len(c[0]) for c in self.concepts]
        if up:
            cands = sorted((j for j in range(k) if j != i and leq[i][j]), key=lambda j: size[j])
        else:
            cands = sorted((j for j in range(k) if j != i and leq[j][i]), key=lambda j: -size[j])
        covers = []
        for j in cands:
            if up and not any(leq[c][j] for c in covers):
                covers.append(j)
            elif not up and not any(leq[j][c] for c in covers):
                covers.append(j)
        return sorted(covers)

    def lower_covers(self, i):
        leq = self.leq
        k = len(leq)
        if k > self.BIG:
            return self._covers_scan(i, up=False)
        downs = [j for j in range(k) if j != i and leq[j][i]]
        return [j for j in downs
                if not any(z != i and z != j and leq[j][z] and leq[z][i] for z in downs)]

    def upset(self, i):
        return [j for j in range(len(self.leq)) if self.leq[i][j]]

    def downset(self, i):
        return [j for j in range(len(self.leq)) if self.leq[j][i]]

    def join(self, idxs):
        """Least upper bound by search in the order (None if not unique: RefError)."""
        leq = self.leq
        k = len(leq)
        ubs = [u for u in range(k) if all(leq[i][u] for i in idxs)]
        # the least one, if any, has the smallest extent: test only those
        size = min(len(self.concepts[u][0]) for u in ubs) if ubs else None
        least = [u for u in ubs if len(self.concepts[u][0]) == size
                 and all(leq[u][v] for v in ubs)]
        if len(least) != 1:
            raise RefError('no unique join')
        return least[0]

    def meet(self, idxs):
        leq = self.leq
        k = len(leq)
        lbs = [l for l in range(k) if all(leq[l][i] for i in idxs)]
        size = max(len(self.concepts[l][0]) for l in lbs) if lbs else None
        greatest = [l for l in lbs if len(self.concepts[l][0]) == size
                    and all(leq[v][l] for v in lbs)]
        if len(greatest) != 1:
            raise RefError('no unique meet')
        return greatest[0]

    @property
    def bottom(self):
        return self.index_of_extent(self.closure_objs(()))

    @property
    def top(self):
        return self.index_of_extent(self.G)

    # -------------------------------------------------- ranks
    def dindex(self):
        """dindex[i] = rank of concept i in longlex order of extents."""
        cs = self.concepts
        order = sorted(range(len(cs)), key=lambda i: longlex_key(cs[i][0]))
        d = [None] * len(cs)
        for rank, i in enumerate(order):
            d[i] = rank
        return d

    # -------------------------------------------------- labelling
    def object_concept(self, o):
        return self.index_of_extent(self.closure_objs([o]))

    def attribute_concept(self, p):
        return self.index_of_extent(self.extent_of([p]))

    def object_labels(self):
        lab = [[] for _ in self.concepts]
        for o in range(self.n):
            lab[self.object_concept(o)].append(o)
        return [tuple(x) for x in lab]

    def property_labels(self):
        lab = [[] for _ in self.concepts]
        for p in range(self.m):
            lab[self.attribute_concept(p)].append(p)
        return [tuple(x) for x in lab]

    # -------------------------------------------------- shape statistics
    def signature(self):
        """Isomorphism-invariant summary used for 'distinct outcome' counting."""
        cs = self.concepts
        ncov = sum(len(self.upper_covers(i)) for i in range(len(cs)))
        return (len(cs), ncov)

    def nontrivial(self):
        """More than two concepts and not a chain."""
        cs = self.concepts
        if len(cs) <= 2:
            return False
        leq = self.leq
        return any(not leq[i][j] and not leq[j][i]
                   for i in range(len(cs)) for j in range(i))


# ---------------------------------------------------------------- relations (C16)
# The classification of a pair of contingent columns by the set of truth
# combinations that occur among the objects, typed in from the logic textbook
# (square of opposition / sixteen binary connectives restricted to contingent
# operands), *not* parsed from the implementation's docstrings.
#   key: frozenset of occurring (left, right) combinations
T, F = True, False
BINARY_KIND = {
    frozenset({(T, T), (F, F)}): ('equivalent', 1),
    frozenset({(T, F), (F, T)}): ('complement', 2),
    frozenset({(T, F), (F, T), (F, F)}): ('incompatible', 3),
    frozenset({(T, T), (F, T), (F, F)}): ('implication', 4),     # left -> right
    frozenset({(T, T), (T, F), (F, F)}): ('replication', 4),     # right -> left, listed swapped
    frozenset({(T, T), (T, F), (F, T)}): ('subcontrary', 6),
    frozenset({(T, T), (T, F), (F, T), (F, F)}): ('orthogonal', 7),
}
UNARY_KIND = {
    frozenset({T}): ('tautology', -1),
    frozenset({F}): ('contradiction', -2),
    frozenset({T, F}): ('contingency', 0),
}


def relations_ref(rows, include_unary=False):
    """Expected relations list as [(kind, left_pos, right_pos_or_None)] in order."""
    n = len(rows)
    m = len(rows[0])
    cols = [tuple(rows[i][j] for i in range(n)) for j in range(m)]
    entries = []   # (rank, seq, kind, left, right)
    seq = 0
    contingent = []
    for j, col in enumerate(cols):
        kind, rank = UNARY_KIND[frozenset(col)]
        if kind == 'contingency':
            contingent.append(j)
        if include_unary:
            entries.append((rank, seq, kind, j, None))
            seq += 1
    for a, b in itertools.combinations(contingent, 2):
        pattern = frozenset(zip(cols[a], cols[b]))
        if pattern not in BINARY_KIND:
            raise RefError('impossible pattern for contingent columns: %r' % (pattern,))
        kind, rank = BINARY_KIND[pattern]
        left, right = a, b
        if kind == 'replication':
            kind, left, right = 'implication', b, a
        entries.append((rank, seq, kind, left, right))
        seq += 1
    entries.sort(key=lambda e: (e[0], e[1]))   # stable by rank
    return [(k, l, r) for _, _, k, l, r in entries]
