"""E1 state space: boolean tables (strata S, F, P, W), labelings, sharding.

A *table* is ``(n, m, code)``: n rows (objects), m columns (properties) and an
integer whose bit ``i*m + j`` is the cell of row i, column j.  Everything is
enumerated smallest first so the first counterexample is the smallest.

Nothing here imports ``concepts``.
"""

import itertools

# ---------------------------------------------------------------- basics


def rows_of(n, m, code):
    """Row-major list of tuples of bool."""
    return [tuple(bool((code >> (i * m + j)) & 1) for j in range(m))
            for i in range(n)]


def code_of(rows):
    n = len(rows)
    m = len(rows[0]) if rows else 0
    code = 0
    for i, row in enumerate(rows):
        for j, b in enumerate(row):
            if b:
                code |= 1 << (i * m + j)
    return n, m, code


def shapes(bound, min_side=1):
    """All (n, m) with n, m >= min_side and n*m <= bound, by size then n."""
    result = [(n, m) for n in range(min_side, bound + 1)
              for m in range(min_side, bound + 1) if n * m <= bound]
    result.sort(key=lambda s: (s[0] * s[1], s[0]))
    return result


def count_tables(shape_list):
    return sum(1 << (n * m) for n, m in shape_list)


# ---------------------------------------------------------------- labelings

ASC, DESC, WEIRD, CHAR, SPACE = 'asc', 'desc', 'weird', 'char', 'space'
EMPTYP, EMPTYO = 'empty-prop', 'empty-obj'


def labels(n, m, labeling=ASC):
    """Object and property label tuples.

    asc: label order == positional order.  desc: label order is the exact
    reverse of positional order, so for every pair of positions the label
    comparison contradicts the positional comparison.
    """
    if labeling == ASC:
        return (tuple(f'o{i:03d}' for i in range(n)),
                tuple(f'p{j:03d}' for j in range(m)))
    if labeling == DESC:
        return (tuple(f'o{n - 1 - i:03d}' for i in range(n)),
                tuple(f'p{m - 1 - j:03d}' for j in range(m)))
    if labeling == CHAR:    # one-character labels (a str is then a collection of labels)
        if n > 13 or m > 13:
            raise ValueError('char labeling is for small tables')
        return (tuple('abcdefghijklm'[:n]), tuple('nopqrstuvwxyz'[:m]))
    if labeling == SPACE:   # labels that differ only in leading / trailing blanks
        pads = [(a, b) for t in range(8) for a in range(t + 1) for b in [t - a]]
        return (tuple(' ' * a + 'o' + ' ' * b for a, b in pads[:n]),
                tuple(' ' * a + 'p' + ' ' * b for a, b in pads[:m]))
    if labeling == WEIRD:   # blanks, quotes and non-ASCII inside labels (C20, C10 strings)
        return (tuple(f'o {i}"q' for i in range(n)),
                tuple(f"p'{j} \u00e4" for j in range(m)))
    if labeling == EMPTYP:  # the empty string is a label like any other: last property
        return (tuple(f'o{i:03d}' for i in range(n)),
                tuple(f'p{j:03d}' for j in range(m - 1)) + ('',))
    if labeling == EMPTYO:  # ... first object
        return (('',) + tuple(f'o{i:03d}' for i in range(1, n)),
                tuple(f'p{j:03d}' for j in range(m)))
    raise ValueError(labeling)


# ---------------------------------------------------------------- stratum S(B)

def s_shards(bound, chunk=2048, extra_shapes=(), max_side=None, only_shapes=None):
    """Shards ('S', n, m, start, stop) covering every table of every shape."""
    shp = list(only_shapes) if only_shapes is not None else shapes(bound)
    for s in extra_shapes:
        if s not in shp:
            shp.append(s)
    out = []
    for n, m in shp:
        if max_side is not None and max(n, m) > max_side:
            continue
        total = 1 << (n * m)
        for start in range(0, total, chunk):
            out.append(('S', n, m, start, min(total, start + chunk)))
    return out


# ---------------------------------------------------------------- scales

def scale(kind, k):
    """Standard FCA scales as row lists."""
    if kind == 'nominal':       # k x k identity, lattice M_k
        return [tuple(i == j for j in range(k)) for i in range(k)]
    if kind == 'contranominal':  # k x k complement of identity, lattice 2^k
        return [tuple(i != j for j in range(k)) for i in range(k)]
    if kind == 'ordinal':       # chain
        return [tuple(i <= j for j in range(k)) for i in range(k)]
    if kind == 'ordinal-rev':   # chain, rows growing: row i has the first i+1 properties
        return [tuple(j <= i for j in range(k)) for i in range(k)]
    if kind in ('paley', 'paley0'):   # circulant of the quadratic residues mod k (k prime):
        # irregular non-boolean lattices with several hundred concepts and wide covers
        res = {(x * x) % k for x in range(1, k)} | ({0} if kind == 'paley0' else set())
        return circulant(k, sum(1 << i for i in res))
    if kind == 'blocks':        # k objects in two equal blocks, one property each, one shared
        h = k // 2
        return [(i < h, i >= h, i % 3 == 0) for i in range(k)]
    if kind == 'contranominal+full':   # boolean lattice with a non-empty bottom extent
        return [tuple(i != j for j in range(k)) for i in range(k)] + [(True,) * k]
    if kind == 'chainproduct':  # product of two chains of length k: (k+1)^2 concepts
        o = [tuple(i <= j for j in range(k)) for i in range(k)]
        return [r + (True,) * k for r in o] + [(True,) * k + r for r in o]
    if kind == 'interordinal':  # k x 2k
        return [tuple(i <= j for j in range(k)) + tuple(i >= j for j in range(k))
                for i in range(k)]
    if kind == 'biordinal':     # two chains side by side
        h = k // 2
        return [tuple((i < h and j < h and i <= j) or (i >= h and j >= h and i >= j)
                      for j in range(k)) for i in range(k)]
    raise ValueError(kind)


SCALES = ('nominal', 'contranominal', 'ordinal', 'interordinal', 'biordinal')


def f_tables(k, d, kinds=SCALES):
    """F(k, d): every scale with every set of at most d flipped cells."""
    for kind in kinds:
        base = scale(kind, k)
        n, m, code = code_of(base)
        cells = n * m
        for r in range(d + 1):
            for flips in itertools.combinations(range(cells), r):
                c = code
                for f in flips:
                    c ^= 1 << f
                yield n, m, c


def f_shards(k, d, kinds=SCALES, chunk=256):
    """Shards ('F', k, d, kind, start, stop) over the per-kind flip enumeration."""
    out = []
    for kind in kinds:
        n = len(scale(kind, k))
        m = len(scale(kind, k)[0])
        cells = n * m
        total = sum(_ncr(cells, r) for r in range(d + 1))
        for start in range(0, total, chunk):
            out.append(('F', k, d, kind, start, min(total, start + chunk)))
    return out


def _ncr(n, r):
    import math
    return math.comb(n, r)


def f_tables_range(k, d, kind, start, stop):
    gen = f_tables(k, d, kinds=(kind,))
    return itertools.islice(gen, start, stop)


# ---------------------------------------------------------------- stratum G (structured, bigger)

def circulant(k, pattern):
    """k x k table whose row i is the bit pattern rotated by i."""
    return [tuple(bool((pattern >> ((j - i) % k)) & 1) for j in range(k)) for i in range(k)]


def toeplitz(k, pattern):
    """k x k table constant along diagonals: cell (i, j) = bit (j - i + k - 1) of pattern."""
    return [tuple(bool((pattern >> (j - i + k - 1)) & 1) for j in range(k)) for i in range(k)]


TINY_SHAPES = ((1, 1), (1, 2), (2, 1), (2, 2))


def tiny_tables():
    out = []
    for n, m in TINY_SHAPES:
        for code in range(1 << (n * m)):
            out.append(rows_of(n, m, code))
    return out


def compose(parts, fill):
    """Block-diagonal composition of tables; cells outside the blocks are ``fill``
    (False: horizontal sum of the lattices, True: the blocks sit on a full background)."""
    width = sum(len(p[0]) for p in parts)
    rows, off = [], 0
    for p in parts:
        w = len(p[0])
        for r in p:
            rows.append((fill,) * off + tuple(r) + (fill,) * (width - off - w))
        off += w
    return rows


def ksubsets(k, r):
    """One object per r-subset of k properties (an antichain of rows)."""
    return [tuple(j in sub for j in range(k)) for sub in itertools.combinations(range(k), r)]


KSUB = ((4, 2), (5, 2), (5, 3), (6, 2), (6, 3))


def ksub_tables():
    """Subset contexts, each with every single cell flipped, and all transposes;
    plus every 5x4 table whose rows are 5 distinct 2-subsets of 4 properties in every
    order (a concept with more upper neighbours than properties), and transposes."""
    out = []
    for k, r in KSUB:
        base = ksubsets(k, r)
        n, m = len(base), k
        variants = [base]
        for i in range(n):
            for j in range(m):
                v = [list(row) for row in base]
                v[i][j] = not v[i][j]
                variants.append([tuple(row) for row in v])
        for v in variants:
            out.append(v)
            out.append([tuple(row[j] for row in v) for j in range(m)])
    pairs = ksubsets(4, 2)
    for sel in itertools.permutations(range(6), 5):
        v = [pairs[i] for i in sel]
        out.append(v)
        out.append([tuple(row[j] for row in v) for j in range(4)])
    return out


_KSUB_CACHE = []


def g_shards(tier):
    """Structured families enumerated completely: all circulant tables, all Toeplitz
    tables, all block compositions of 2 (quick) / 3 (thorough) tiny tables."""
    out = []
    ks = (5, 6, 7) if tier == 'quick' else (5, 6, 7, 8)
    for k in ks:
        total = 1 << k
        for start in range(0, total, 32):
            out.append(('G', 'circulant', k, start, min(total, start + 32)))
    for k in ((5,) if tier == 'quick' else (5, 6)):
        total = 1 << (2 * k - 1)
        for start in range(0, total, 64):
            out.append(('G', 'toeplitz', k, start, min(total, start + 64)))
    if not _KSUB_CACHE:
        _KSUB_CACHE.extend(ksub_tables())
    total = len(_KSUB_CACHE)
    for start in range(0, total, 64):
        out.append(('G', 'ksub', 0, start, min(total, start + 64)))
    # tall and flat tables with repeated rows: every multiset of n row patterns over m columns
    # (rows in non-decreasing pattern order), and the transposes
    for m, n in (MULTIROW_QUICK if tier == 'quick' else MULTIROW_THOROUGH):
        total = _ncr(n + (1 << m) - 1, n)
        for t in (0, 1):
            for start in range(0, total, 128):
                out.append(('G', 'multirow', m * 1000 + n * 10 + t, start, min(total, start + 128)))
    t = len(tiny_tables())
    arity = 2 if tier == 'quick' else 3
    total = t ** arity * 2
    for start in range(0, total, 256):
        out.append(('G', 'compose', arity, start, min(total, start + 256)))
    return out


MULTIROW_QUICK = ((3, 6), (3, 7), (2, 8), (2, 10))
MULTIROW_THOROUGH = ((3, 5), (3, 6), (3, 7), (3, 8), (3, 9), (3, 10), (2, 7), (2, 8), (2, 9),
                     (2, 10), (2, 12), (2, 14), (4, 5), (4, 6))
_MULTIROW_CACHE = {}


def multirow(k, idx):
    import itertools
    m, n, t = k // 1000, (k % 1000) // 10, k % 10
    if (m, n) not in _MULTIROW_CACHE:
        _MULTIROW_CACHE.clear()
        _MULTIROW_CACHE[(m, n)] = list(itertools.combinations_with_replacement(range(1 << m), n))
    pats = _MULTIROW_CACHE[(m, n)][idx]
    rows = [tuple(bool(p >> j & 1) for j in range(m)) for p in pats]
    return [tuple(c) for c in zip(*rows)] if t else rows


def g_rows(kind, k, idx):
    if kind == 'multirow':
        return multirow(k, idx)
    if kind == 'circulant':
        return circulant(k, idx)
    if kind == 'toeplitz':
        return toeplitz(k, idx)
    if kind == 'ksub':
        if not _KSUB_CACHE:
            _KSUB_CACHE.extend(ksub_tables())
        return _KSUB_CACHE[idx]
    if kind == 'compose':
        tiny = tiny_tables()
        t = len(tiny)
        fill = bool(idx & 1)
        idx >>= 1
        parts = []
        for _ in range(k):
            parts.append(tiny[idx % t])
            idx //= t
        return compose(parts, fill)
    raise ValueError(kind)


# ---------------------------------------------------------------- stratum P

P_OFFSETS = (0, 1, 29, 30, 31, 59, 60, 61, 63, 64, 65, 127)
P_PADS = ('blank', 'cross', 'copy')
P_AXES = ('obj', 'prop', 'both')


def embed(n, m, code, off, pad, axis):
    """Embed table t after ``off`` padding objects and/or properties.

    pad: 'blank' (all False), 'cross' (all True), 'copy' (padding rows are
    copies of t's first row, padding columns copies of t's first column).
    Returns rows (list of tuples).  The small block sits at the *high* end
    so that it lands beyond the 30/60/64-bit boundaries.
    """
    t = rows_of(n, m, code)
    if axis in ('obj-mid', 'prop-mid'):
        # the padding sits between the first row/column of t and the rest
        if axis == 'prop-mid':
            def padc(row):
                return {'blank': (False,), 'cross': (True,), 'copy': (row[0],)}[pad] * off
            return [r[:1] + padc(r) + r[1:] for r in t]
        prow = {'blank': (False,) * m, 'cross': (True,) * m, 'copy': t[0]}[pad]
        return t[:1] + [prow] * off + t[1:]
    po = off if axis in ('obj', 'both') else 0
    pp = off if axis in ('prop', 'both') else 0
    # columns first: each row of t gets pp padding cells in front
    def padcells(row):
        if pad == 'blank':
            return (False,) * pp
        if pad == 'cross':
            return (True,) * pp
        return (row[0],) * pp
    wide = [padcells(r) + r for r in t]
    if pad == 'blank':
        prow = (False,) * (pp + m)
    elif pad == 'cross':
        prow = (True,) * (pp + m)
    else:
        prow = wide[0]
    return [prow] * po + wide


def p_shards(bound=6, offsets=P_OFFSETS, pads=P_PADS, axes=P_AXES, extra_shapes=()):
    """Shards ('P', n, m, off, pad, axis) – each covers all 2^(n*m) tables."""
    out = []
    base = list(shapes(bound)) if bound else []
    for n, m in base + [s for s in extra_shapes if s not in base]:
        for off in offsets:
            for pad in pads:
                for axis in axes:
                    if off == 0:
                        continue  # off 0 is the plain table, covered by S
                    out.append(('P', n, m, off, pad, axis))
    return out


# ---------------------------------------------------------------- stratum W

W_SIZES = (29, 30, 31, 59, 60, 61, 63, 64, 65, 70, 130)


def two_run_sets(k, max_runs=2):
    """Every subset of range(k) consisting of at most ``max_runs`` runs of
    consecutive members, as sorted tuples (the empty set included)."""
    yield ()
    for a in range(k):
        for b in range(a + 1, k + 1):
            yield tuple(range(a, b))
    if max_runs >= 2:
        for a in range(k):
            for b in range(a + 1, k + 1):
                for c in range(b + 1, k):
                    for d in range(c + 1, k + 1):
                        yield tuple(range(a, b)) + tuple(range(c, d))


def w_shards(sizes=W_SIZES, kinds=('nominal', 'ordinal')):
    return [('W', kind, k) for k in sizes for kind in kinds]


def big_shards(tier):
    """Big lattices / wide extents as whole tables (one shard each)."""
    sh = [('W', 'nominal', 9), ('W', 'nominal', 31), ('W', 'ordinal', 40), ('W', 'ordinal-rev', 40),
          ('W', 'nominal', 65), ('W', 'ordinal-rev', 65), ('W', 'blocks', 600),
          ('W', 'contranominal+full', 9), ('W', 'chainproduct', 12),
          ('W', 'paley0', 13), ('W', 'paley', 17), ('W', 'paley0', 17), ('W', 'paley', 19),
          ('W', 'contranominal', 11)]
    if tier == 'thorough':
        sh += [('W', 'nominal', 130), ('W', 'ordinal', 130), ('W', 'ordinal-rev', 130),
               ('W', 'contranominal', 10), ('W', 'contranominal', 12), ('W', 'chainproduct', 19),
               ('W', 'chainproduct', 30), ('W', 'contranominal+full', 10), ('W', 'paley0', 19)]
    return sh


# ---------------------------------------------------------------- expansion

def tables_of_shard(shard):
    """Yield (n, m, rows, tag) for every table of a shard."""
    kind = shard[0]
    if kind == 'S':
        _, n, m, start, stop = shard
        for code in range(start, stop):
            yield n, m, rows_of(n, m, code), ('S', n, m, code)
    elif kind == 'F':
        _, k, d, sk, start, stop = shard
        for idx, (n, m, code) in enumerate(f_tables_range(k, d, sk, start, stop), start):
            yield n, m, rows_of(n, m, code), ('F', sk, k, n, m, code)
    elif kind == 'P':
        _, n, m, off, pad, axis = shard
        for code in range(1 << (n * m)):
            rows = embed(n, m, code, off, pad, axis)
            yield len(rows), len(rows[0]), rows, ('P', n, m, code, off, pad, axis)
    elif kind == 'G':
        _, fam, k, start, stop = shard
        for idx in range(start, stop):
            rows = g_rows(fam, k, idx)
            yield len(rows), len(rows[0]), rows, ('G', fam, k, idx)
    elif kind == 'W':  # whole wide scales
        _, sk, k = shard
        rows = scale(sk, k)
        yield len(rows), len(rows[0]), rows, ('W', sk, k)
    elif kind == 'X':  # explicit tables
        for n, m, code in shard[1]:
            yield n, m, rows_of(n, m, code), ('X', n, m, code)
    else:
        raise ValueError(shard)


def rows_from_tag(tag):
    """Rebuild the rows of a case from its tag (used by replay)."""
    kind = tag[0]
    if kind in ('S', 'X'):
        _, n, m, code = tag
        return rows_of(n, m, code)
    if kind == 'F':
        _, sk, k, n, m, code = tag
        return rows_of(n, m, code)
    if kind == 'P':
        _, n, m, code, off, pad, axis = tag
        return embed(n, m, code, off, pad, axis)
    if kind == 'G':
        return g_rows(tag[1], tag[2], tag[3])
    if kind == 'W':
        return scale(tag[1], tag[2])
    if kind == 'R':  # raw rows
        return [tuple(bool(b) for b in r) for r in tag[1]]
    raise ValueError(tag)
