"""C09 upset/downset traversals yield exactly the filters/ideals, once, in rank order.

clause -> what is compared
  c.upset()            set of members == R1 filter of c (by search); .index strictly increasing
                       along the yielded sequence (=> each once, increasing index order)
  c.downset()          set == R1 ideal; .dindex strictly increasing
  lattice.upset_union(S) / downset_union(S)
                       set == union of the R1 filters / ideals of S; strictly increasing rank;
                       S = every multiset of size 0, 1, 2 (incl. [x, x]), size 3 (<= 8 concepts),
                       the full list; as list and as generator; under EVERY iteration order of the
                       internal seed set (set-order seam: all k! for k <= 4 distinct seeds)
  empty collection     yields nothing
  interleaving         two traversals of one lattice consumed alternately (every schedule with <= 2
                       switches, and strict alternation) each yield what they yield alone
"""

import itertools

from .. import common, e1, env

ID = 'C09'
LEVEL = 'model_checking'
RULE = ('tables: S(12)/S(16) ∪ F, two labelings; every concept; every seed multiset of size <= 2 '
        '(<= 3 for <= 8 concepts; quick: <= 6 concepts, one labeling on S) x every iteration order of the seed set; non-trivial = lattice '
        'has > 2 concepts and is not a chain; distinct = distinct table')
ASSUMPTIONS = ['the iteration order of the id-hashed seed set is owned through the module-global '
               'name `set` in concepts.tools (seam hits are counted; zero hits = coverage loss, '
               'reported as a warning, never as a violation)',
               'rank order is judged on the members\' own index/dindex attributes (C06 decides '
               'that these are the shortlex/longlex ranks)']
HITS = ('hit_diamond', 'hit_comparable_seeds', 'hit_repeated_seeds', 'hit_seam', 'hit_interleaved')
BUDGET = {'quick': 240, 'thorough': 3000}


TRIPLE_LIMIT = [8]   # quick: 6


def interleavings(n1, n2):
    """Schedules (sequences of 0/1 = which generator advances) for two traversals
    of n1 and n2 items: strict alternation, and every schedule made of at most three
    runs (<= 2 switches) that starts with either generator; the remainder of each
    generator is drained afterwards in order 0, 1."""
    out = {tuple(w for pair in zip([0] * n1, [1] * n2) for w in pair)}
    for first in (0, 1):
        a, b = (n1, n2) if first == 0 else (n2, n1)
        for x in range(1, a + 1):
            for y in range(1, b + 1):
                out.add((first,) * x + (1 - first,) * y)
    return sorted(out)


def shards(tier):
    # the 10x10 contranominal scale: concepts with 9 neighbours met in mid-traversal
    return e1.std_shards(tier, with_p=True, with_big=True, with_hist=True)


def check_case(case, ctr):
    V = []
    ref = case.ref
    al = case.align()
    if al is None:
        return [e1.misaligned(ID, case)]
    lat = case.lat
    k = len(al)
    pos = case.pos

    def bad(clause, exp, got, **kw):
        V.append(common.violation(ID, clause, case.ident(**kw), exp, got,
                                  repro=case.py_ctx() + 'l = list(c.lattice)\n'
                                  f'# {clause} {kw}: expected member indexes {exp}\n'))

    def judge(seq, expset, rank, clause, **kw):
        got = [pos(x) for x in seq]
        ranks = [getattr(x, rank) for x in seq]
        if None in got or set(got) != set(expset) or \
                any(b <= a for a, b in zip(ranks, ranks[1:])):
            bad(clause, sorted(expset), got, **kw)
            return False
        return True

    ups = [set(ref.upset(i)) for i in range(k)]
    downs = [set(ref.downset(i)) for i in range(k)]
    for i, c in enumerate(al):
        ctr['calls'] += 2
        if not judge(list(c.upset()), ups[i], 'index', 'upset', concept=i):
            return V
        if not judge(list(c.downset()), downs[i], 'dindex', 'downset', concept=i):
            return V
    # interleaved traversals: two lazy traversals of the same lattice alive at the same time
    # must each yield what they yield alone (all schedules with <= 2 switches + strict alternation)
    if k <= 8 and not V and case.variant == 'fresh' and case.labeling == 'asc':
        solo_up = {i: [pos(x) for x in al[i].upset()] for i in range(k)}
        solo_dn = {i: [pos(x) for x in al[i].downset()] for i in range(k)}
        for i in range(k):
            for mk, solo, name, other in ((lambda c: c.upset(), solo_up, 'upset', ref.bottom),
                                          (lambda c: c.downset(), solo_dn, 'downset', ref.top)):
                for j in {i, other}:
                    for sched in interleavings(len(solo[i]), len(solo[j])):
                        g1, g2 = mk(al[i]), mk(al[j])
                        out1, out2 = [], []
                        for who in sched:
                            (out1 if who == 0 else out2).append(pos(next(g1 if who == 0 else g2)))
                        out1 += [pos(x) for x in g1]
                        out2 += [pos(x) for x in g2]
                        ctr['calls'] += 2
                        ctr['hit_interleaved'] += 1
                        if out1 != solo[i] or out2 != solo[j]:
                            bad(name + '-interleaved', [solo[i], solo[j]], [out1, out2],
                                concepts=[i, j], schedule=''.join(map(str, sched)))
                            return V
    # diamonds: two different maximal chains between some pair
    if any(len(ref.upper_covers(i)) > 1 for i in range(k)) and k > 3:
        ctr['hit_diamond'] += 1

    if k <= 20:
        colls = [()] + [(i,) for i in range(k)] + list(itertools.product(range(k), repeat=2))
    else:
        colls = [()] + [(i,) for i in range(k)]
        for i in (range(k) if k <= 200 else ()):
            colls += [(i, j) for j in sorted({0, k - 1, i, k - 1 - i} | set(ref.upper_covers(i))
                                             | set(ref.lower_covers(i)))]
    # many distinct seeds, with and without the bounds
    colls += [tuple(range(1, k - 1)), tuple(range(k - 1)), tuple(range(1, k))]
    if k > 18:
        colls += [tuple(range(1, 18)), tuple(range(k - 18, k - 1))]
    if k <= TRIPLE_LIMIT[0]:
        colls += list(itertools.product(range(k), repeat=3))
    elif k <= 8:
        # quick tier, 7-8 concepts: the triples on which the reduction to extremal seeds
        # has real work to do are the antichains
        colls += [t for t in itertools.combinations(range(k), 3)
                  if not any(ref.leq[a][b] or ref.leq[b][a] for a, b in itertools.combinations(t, 2))]
    colls.append(tuple(range(k)))
    hits0 = env.SeamSet.hits
    for coll in colls:
        distinct = len(set(coll))
        if distinct < len(coll):
            ctr['hit_repeated_seeds'] += 1
        if any(a != b and ref.leq[a][b] for a in coll for b in coll):
            ctr['hit_comparable_seeds'] += 1
        eu = set().union(*(ups[i] for i in coll)) if coll else set()
        ed = set().union(*(downs[i] for i in coll)) if coll else set()
        seeds = [al[i] for i in coll]
        for choice in range(min(env.n_orders(distinct), 24)):
            env.SeamSet.choice = choice
            ctr['calls'] += 2
            if not judge(list(lat.upset_union(seeds)), eu, 'index', 'upset_union',
                         seeds=list(coll), set_order=choice):
                return V
            if not judge(list(lat.downset_union(x for x in seeds)), ed, 'dindex', 'downset_union',
                         seeds=list(coll), set_order=choice):
                return V
    env.SeamSet.choice = 0
    ctr['hit_seam'] += env.SeamSet.hits - hits0
    # the seeds are those passed when the call is made (caller reuses its scratch list)
    if k >= 2 and not V:
        for i in range(min(k, 64)):
            scratch = [al[i], al[(i + 1) % k]]
            gu, gd = lat.upset_union(scratch), lat.downset_union(scratch)
            scratch.clear()
            scratch.append(al[ref.top])
            ctr['calls'] += 2
            if not judge(list(gu), ups[i] | ups[(i + 1) % k], 'index', 'upset_union',
                         seeds=[i, (i + 1) % k], note='argument list changed after the call'):
                return V
            if not judge(list(gd), downs[i] | downs[(i + 1) % k], 'dindex', 'downset_union',
                         seeds=[i, (i + 1) % k], note='argument list changed after the call'):
                return V
    # the same list OBJECT passed again after the caller changed it in place (append, clear)
    if k >= 2 and not V:
        for i in range(min(k, 64)):
            j = (i + 1) % k
            mine = [al[i]]
            for step_, (expu, expd) in enumerate(((ups[i], downs[i]),
                                                  (ups[i] | ups[j], downs[i] | downs[j]),
                                                  (set(), set()))):
                ctr['calls'] += 2
                if not judge(list(lat.upset_union(mine)), expu, 'index', 'upset_union',
                             seeds=[i, j], note=f'same list object, edited in place, call {step_}'):
                    return V
                if not judge(list(lat.downset_union(mine)), expd, 'dindex', 'downset_union',
                             seeds=[i, j], note=f'same list object, edited in place, call {step_}'):
                    return V
                if step_ == 0:
                    mine.append(al[j])
                else:
                    mine.clear()
    return V


def run_shard(shard, tier):
    mods = env.install_set_seam(('concepts.tools',))
    TRIPLE_LIMIT[0] = 6 if tier == 'quick' else 8
    try:
        return e1.run_shard_generic(shard, tier, ID, check_case, variants=('pickle', 'fromdict-raw', 'used'), wide_variants=(),
                                    both_labelings=(tier != 'quick' or shard[0] == 'F'))
    finally:
        env.remove_set_seam(mods)


def main(tier):
    return e1.main_e1(__import__(__name__, fromlist=['x']), tier)


def replay(v):
    mods = env.install_set_seam(('concepts.tools',))
    try:
        return e1.replay_e1(__import__(__name__, fromlist=['x']), v)
    finally:
        env.remove_set_seam(mods)
