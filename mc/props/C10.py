"""C10 Reduced labelling: every object and property labels exactly its own concept.

clause -> what is compared
  object labels        for every concept: .objects == tuple of the objects o with R1 (o'', o') equal to
                       that concept, in context order (=> each object in exactly one label)
  property labels      .properties == tuple of the properties p with R1 (p', p'') equal to it
  extent/intent        extent == union of the real object labels over the R1 downset,
                       intent == union of the real property labels over the R1 upset
  atoms                set(c.atoms) == lattice atoms (R1 upper covers of the bottom) <= c; no repeats
  string forms         str(c) == '{e1, e2} <-> [i1 i2]' + ' <=> objects' + ' <=> properties' built
                       from R1's labels; str(lattice) lists these lines
  no leakage           the class-level default labels stay (); labels identical on a second lattice
                       built from the same table, after fromdict(todict()) and after pickle
"""

import pickle

from .. import common, e1, space

ID = 'C10'
LEVEL = 'model_checking'
RULE = ('tables: S(12)/S(16) ∪ F (all duplicate / full / empty row and column patterns are in S), '
        'labelings ascending, descending and one with blanks/quotes/non-ASCII; every concept; '
        'non-trivial = lattice has > 2 concepts and is not a chain; distinct = distinct table')
ASSUMPTIONS = ['R1 object concept = (o\'\', o\'), attribute concept = (p\', p\'\') by definition',
               'the str() layout is the one documented in the class docstrings']
HITS = ('hit_shared_label', 'hit_label_on_bottom', 'hit_label_on_top', 'hit_unlabelled_concept')
BUDGET = {'quick': 240, 'thorough': 3000}


def shards(tier):
    return e1.std_shards(tier, with_p=True, with_big=True, with_hist=True)


def atoms_obs(c):
    """The atoms of a concept as the extents of the members of c.atoms; a member that is not a
    concept is reported as such instead of crashing the harness."""
    return tuple(a.extent if hasattr(a, 'extent') else ('NOT-A-CONCEPT', repr(a)[:60])
                 for a in c.atoms)


def label_obs(lat):
    return [(c.objects, c.properties, atoms_obs(c)) for c in lat]


def check_case(case, ctr):
    import concepts
    from concepts import lattice_members
    V = []
    ref = case.ref
    al = case.align()
    if al is None:
        return [e1.misaligned(ID, case)]
    lat = case.lat
    k = len(al)

    def bad(clause, exp, got, **kw):
        V.append(common.violation(ID, clause, case.ident(**kw), exp, got,
                                  repro=case.py_ctx() + 'for x in c.lattice:\n'
                                  '    print(x.extent, x.objects, x.properties, x.atoms)\n'))

    olabs, plabs = ref.object_labels(), ref.property_labels()
    atoms_ref = set(ref.upper_covers(ref.bottom))
    for i, c in enumerate(al):
        ctr['calls'] += 3
        eo, ep = case.olab(olabs[i]), case.plab(plabs[i])
        if tuple(c.objects) != eo:
            bad('object-labels', eo, c.objects, concept=i)
        if tuple(c.properties) != ep:
            bad('property-labels', ep, c.properties, concept=i)
        if len(eo) > 1 or len(ep) > 1:
            ctr['hit_shared_label'] += 1
        if not eo and not ep:
            ctr['hit_unlabelled_concept'] += 1
        ext = set()
        for j in ref.downset(i):
            ext.update(al[j].objects)
        inte = set()
        for j in ref.upset(i):
            inte.update(al[j].properties)
        if ext != set(c.extent) or inte != set(c.intent):
            bad('extent-intent-from-labels', [sorted(c.extent), sorted(c.intent)],
                [sorted(ext), sorted(inte)], concept=i)
        ea = {a for a in atoms_ref if ref.leq[a][i]}
        ga = [case.pos(a) for a in c.atoms]
        if set(ga) != ea or len(ga) != len(set(ga)):
            bad('atoms', sorted(ea), ga, concept=i)
        s = '{%s} <-> [%s]' % (', '.join(case.olab(ref.concepts[i][0])),
                               ' '.join(case.plab(ref.concepts[i][1])))
        if eo:
            s += ' <=> ' + ' '.join(eo)
        if ep:
            s += ' <=> ' + ' '.join(ep)
        if str(c) != s:
            bad('str-concept', s, str(c), concept=i)
        if s not in str(lat).split('\n    '):
            bad('str-lattice', s, str(lat))
    if olabs[ref.bottom] or plabs[ref.bottom]:
        ctr['hit_label_on_bottom'] += 1
    if olabs[ref.top] or plabs[ref.top]:
        ctr['hit_label_on_top'] += 1
    # if the labels have class-level defaults they must still be empty (no leak between lattices)
    cd = (getattr(lattice_members.Concept, 'objects', ()), getattr(lattice_members.Concept, 'properties', ()))
    if any(isinstance(x, (tuple, list)) and len(x) for x in cd):
        bad('class-default-leak', [(), ()], [repr(x) for x in cd])
    base = label_obs(lat)
    second = label_obs(case.fresh_ctx().lattice)
    if second != base:
        bad('second-lattice', base, second)
    again = label_obs(concepts.Context.fromdict(case.ctx.todict()).lattice)
    if again != base:
        bad('fromdict-labels', base, again)
    unp = label_obs(pickle.loads(pickle.dumps(lat)))
    ctr['calls'] += 3
    if unp != base:
        bad('pickle-labels', base, unp)
    return V


def run_shard(shard, tier):
    ctr_res = e1.run_shard_generic(shard, tier, ID, check_case, variants=('pickle', 'fromdict-raw', 'used'))
    if shard[0] == 'S' and shard[1] * shard[2] <= 9:
        # third labeling with blanks / quotes / non-ASCII on the small tables
        import collections
        ctr = collections.Counter()
        for n, m, rows, tag in space.tables_of_shard(shard):
            case = e1.Case(rows, tag, space.WEIRD)
            try:
                vs = check_case(case, ctr)
            except Exception as e:
                vs = [common.library_exception(ID, case.ident(), e)]
            e1.track(case, vs, tier)
            ctr['evaluations'] += 1
            ctr_res['violations'].extend(vs[:2])
        for k_, v_ in ctr.items():
            ctr_res['counters'][k_] = ctr_res['counters'].get(k_, 0) + v_
    return ctr_res


def main(tier):
    return e1.main_e1(__import__(__name__, fromlist=['x']), tier)


def replay(v):
    return e1.replay_e1(__import__(__name__, fromlist=['x']), v)
