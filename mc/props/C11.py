"""C11 Structured persistence reloads the same context and the same lattice.

clause -> what is compared
  todict encoding      todict() == encoding computed from R1: names, rows as index tuples, lattice list
                       in shortlex order, per entry extent/intent index tuples and upper (shortlex) /
                       lower (longlex) neighbour index sequences; lattice key present per ignore_lattice
  reload equivalence   for every form (dict, JSON via path / pathlib / file object, python-literal
                       string and file, load() of a .py file, pickle of context, pickle of lattice with
                       protocols 0..5) x lattice state (never computed / computed) x dump flag x load
                       flags: reloaded context == original and its FULL observation vector (per concept:
                       extent, intent, index, dindex, labels, atoms, neighbour indexes, class, owner;
                       per lattice: len, bounds, atoms, str, todict, lookups, join/meet table) equals that
                       of a lattice recomputed from scratch
  raw=True             the same for permutations of the stored lattice list (all k! up to k = 4 (quick)
                       / 5 concepts, above: all transpositions, reversal, rotations), each with
                       neighbour lists, extent/intent indexes and context rows reversed
  require_lattice      ValueError exactly when required and the dict has no lattice
  other process        pickles and JSON produced here are loaded in a fresh interpreter with another
                       PYTHONHASHSEED (no class registry cache): same observation digests
  size axis            boolean lattices B_k, chains, nominal scales of growing size: dict/JSON/pickle
                       round trips still succeed and agree
"""

import collections
import copy
import hashlib
import io
import itertools
import json
import math
import os
import pathlib
import pickle
import shutil
import subprocess
import tempfile

from .. import c17corpus, common, e1, space
from ..refmodel import longlex_key, shortlex_key

ID = 'C11'
ENGINE = 'E3-envspace'
LEVEL = 'model_checking'
TECHNIQUE = ('exhaustive enumeration of tables x persistence forms x lattice states x dump/load '
             'flags x stored-order permutations on the real code, observation-vector comparison '
             'with a lattice recomputed from scratch and with the R1 encoding; cross-process replay '
             'of every payload in a fresh interpreter')
RULE = ('tables: S(9) quick / S(12) thorough, plus the size families; per table every form x state x '
        'flag combination and the stored-order permutations described in the module docstring; '
        'non-trivial = lattice has > 2 concepts and is not a chain; distinct = distinct table')
ASSUMPTIONS = ['the lattice recomputed from scratch is the oracle for a reloaded one (C03-C10 decide '
               'that it is right in absolute terms); todict is also compared with R1 directly',
               'temporary files live under /var/tmp and are removed by the check']
HITS = ('hit_lazy_absent', 'hit_require_rejected', 'hit_raw_permutations', 'hit_child_process')
BUDGET = {'quick': 300, 'thorough': 3000}

CHILD = os.path.join(common.VERIF, 'mc', 'c11child.py')


def shards(tier):
    if tier == 'quick':
        sh = space.s_shards(9, chunk=64)
        sh += [('Z', 'contranominal', k) for k in (3, 5, 7, 9, 10)]
        sh += [('Z', 'ordinal', k) for k in (40, 150)]
        sh += [('Z', 'nominal', 40)]
        sh += space.g_shards(tier) + space.big_shards(tier) + [('LONG',)]
    else:
        sh = space.s_shards(12, chunk=128)
        sh += [('Z', 'contranominal', k) for k in range(1, 12)]
        sh += [('Z', 'ordinal', k) for k in (1, 2, 3, 10, 50, 100, 200, 300, 350, 400, 450, 500, 600)]
        sh += [('Z', 'nominal', k) for k in (10, 100, 1000)]
        sh += space.g_shards(tier) + space.big_shards(tier) + [('LONG',)]
    return sh


# ---------------------------------------------------------------- observation

PREDICATES = ('implies', 'subsumes', 'properly_implies', 'properly_subsumes', 'incompatible_with',
              'complement_of', 'subcontrary_with', 'orthogonal_to')


def member_queries(c, lat):
    """The remaining per-concept public queries: minimal generators and the relation
    predicates against the two bounds (they go through the context's derivation operators)."""
    return (tuple(c.minimal()), tuple(itertools.islice(c.attributes(), 4)),
            tuple(bool(getattr(c, p)(o)) for p in PREDICATES for o in (lat.infimum, lat.supremum)))


def full_obs(ctx, tables=True):
    lat = ctx.lattice
    members = list(lat)
    idx = {id(c): k for k, c in enumerate(members)}
    per = []
    for c in members:
        per.append((c.extent, c.intent, c.index, c.dindex, tuple(c.objects), tuple(c.properties),
                    tuple(idx.get(id(a)) for a in c.atoms),
                    tuple(idx.get(id(u)) for u in c.upper_neighbors),
                    tuple(idx.get(id(l)) for l in c.lower_neighbors),
                    type(c).__name__, c.lattice is lat,
                    lat(c.intent) is c, (lat[c.extent] is c) if c.extent else None,
                    member_queries(c, lat)))
    glob = [len(lat), idx.get(id(lat.infimum)), idx.get(id(lat.supremum)),
            tuple(idx.get(id(a)) for a in lat.atoms), c17corpus.mask(str(lat)),
            _norm(ctx.todict())]
    if tables and len(members) <= 12:
        glob.append([(idx.get(id(lat.join([x, y]))), idx.get(id(lat.meet([x, y]))),
                      idx.get(id(x | y)), idx.get(id(x & y))) for x in members for y in members])
        glob.append([[idx.get(id(y)) for y in x.upset()] for x in members])
        glob.append([[idx.get(id(y)) for y in x.downset()] for x in members])
    return (tuple(ctx.objects), tuple(ctx.properties), [tuple(r) for r in ctx.bools], per, glob)


def _norm(x):
    """tuples and lists are the same thing after a JSON round trip."""
    if isinstance(x, (list, tuple)):
        return [_norm(y) for y in x]
    if isinstance(x, dict):
        return {k: _norm(v) for k, v in sorted(x.items())}
    return x


def digest(obs):
    return hashlib.sha256(repr(_norm(obs)).encode('utf-8', 'backslashreplace')).hexdigest()


def ref_encoding(case):
    """The documented index-based encoding computed from R1."""
    ref = case.ref
    cs = ref.concepts
    ext_sorted = [tuple(sorted(e)) for e, _ in cs]
    lattice = []
    for i, (e, it) in enumerate(cs):
        up = sorted(ref.upper_covers(i), key=lambda j: shortlex_key(ext_sorted[j]))
        lo = sorted(ref.lower_covers(i), key=lambda j: longlex_key(ext_sorted[j]))
        lattice.append([sorted(e), sorted(it), up, lo])
    return {'objects': list(case.objs), 'properties': list(case.props),
            'context': [[j for j, b in enumerate(r) if b] for r in case.rows],
            'lattice': lattice}


# ---------------------------------------------------------------- stored-order permutations

def permute_dict(d, perm, reverse_inner):
    lat = d['lattice']
    k = len(lat)
    inv = [None] * k
    for new, old in enumerate(perm):
        inv[old] = new
    out = []
    for old in perm:
        ex, in_, up, lo = lat[old]
        up2 = [inv[i] for i in up]
        lo2 = [inv[i] for i in lo]
        ex2, in2 = list(ex), list(in_)
        if reverse_inner:
            up2.reverse()
            lo2.reverse()
            ex2.reverse()
            in2.reverse()
        out.append((tuple(ex2), tuple(in2), tuple(up2), tuple(lo2)))
    ctx = [tuple(reversed(r)) if reverse_inner else tuple(r) for r in d['context']]
    return {'objects': d['objects'], 'properties': d['properties'], 'context': ctx, 'lattice': out}


def order_perms(k, allperm_limit):
    ident = list(range(k))
    if k <= allperm_limit:
        return [list(p) for p in itertools.permutations(ident)]
    out = [ident[::-1]]
    for i in range(k):
        for j in range(i + 1, k):
            p = ident[:]
            p[i], p[j] = p[j], p[i]
            out.append(p)
    for r in range(1, k):
        out.append(ident[r:] + ident[:r])
    return out


# ---------------------------------------------------------------- the check of one table

class Ctx:
    tmp = None
    payloads = None
    tier = 'quick'


STATES = ('never', 'computed', 'used')


def _prep(c0, state):
    """lattice state before the dump: never asked for; computed; computed and used (a history of
    read-only queries, exports and a pickle on the context and its lattice, e1.stir)"""
    if state == 'computed':
        c0.lattice
    elif state == 'used':
        e1.stir(c0)
        c0.lattice


def check_case(case, ctr):
    import concepts
    C = concepts.Context
    V = []

    def bad(clause, exp, got, **kw):
        if len(V) < 4:
            V.append(common.violation(ID, clause, case.ident(**kw), exp, got,
                                      repro=case.py_ctx()))

    fresh = case.fresh_ctx()
    ref_obs = full_obs(fresh)
    ref_dg = digest(ref_obs)

    def same(ctx, clause, **kw):
        ctr['calls'] += 1
        try:
            ok_eq = (ctx == fresh) and not (ctx != fresh)
            obs = full_obs(ctx)
        except Exception as e:
            bad(clause, 'an equivalent context', f'{type(e).__name__}: {e}', **kw)
            return False
        if not ok_eq:
            bad(clause, 'context == original', False, **kw)
            return False
        if digest(obs) != ref_dg:
            diff = first_diff(ref_obs, obs)
            bad(clause, diff[0], diff[1], **kw)
            return False
        return True

    # (1) todict encoding vs R1
    enc = ref_encoding(case)
    scratch = fresh.todict()
    for key in ('context', 'lattice'):      # what is handed out is the caller's to change
        if isinstance(scratch.get(key), list):
            del scratch[key][:]
    d_full = fresh.todict()
    if _norm(d_full) != _norm(enc):
        bad('todict-encoding', enc, _norm(d_full))
        return V
    no_lat = {k: v for k, v in enc.items() if k != 'lattice'}
    for state in STATES:
        for flag in (False, True, None):
            c0 = case.fresh_ctx()
            _prep(c0, state)
            d = c0.todict(ignore_lattice=flag)
            ctr['calls'] += 1
            want_lat = (flag is False) or (flag is None and state != 'never')
            if state == 'never' and flag is None:
                ctr['hit_lazy_absent'] += 1
            if _norm(d) != _norm(enc if want_lat else no_lat):
                bad('todict-flag', sorted((enc if want_lat else no_lat)), sorted(d),
                    state=state, ignore_lattice=flag)
                continue
            # dict -> fromdict with every load-flag combination
            for ign, req, raw in itertools.product((False, True), repeat=3):
                try:
                    c1 = C.fromdict(copy.deepcopy(d), ignore_lattice=ign, require_lattice=req, raw=raw)
                    err = None
                except ValueError:
                    err = 'ValueError'
                if req and not want_lat:
                    ctr['hit_require_rejected'] += 1
                    if err is None:
                        bad('require-lattice', 'ValueError', 'loaded', state=state, dump_flag=flag,
                            ignore_lattice=ign, raw=raw)
                    continue
                if err is not None:
                    bad('fromdict', 'a context', err, state=state, dump_flag=flag,
                        ignore_lattice=ign, require_lattice=req, raw=raw)
                    continue
                same(c1, 'fromdict', state=state, dump_flag=flag, ignore_lattice=ign,
                     require_lattice=req, raw=raw)
            # JSON: path str, pathlib, file object
            c0 = case.fresh_ctx()
            _prep(c0, state)
            p = os.path.join(Ctx.tmp, 'c.json')
            c0.tojson(p, ignore_lattice=flag)
            same(C.fromjson(p), 'json-path', state=state, dump_flag=flag)
            # the file written through a path read through the caller's own UTF-8 file object,
            # and by an independent JSON reader (what is on disk is JSON text in UTF-8)
            try:
                with open(p, encoding='utf-8') as fobj:
                    same(C.fromjson(fobj), 'json-path-then-fileobj', state=state, dump_flag=flag)
                with open(p, 'rb') as fobj:
                    on_disk = json.loads(fobj.read().decode('utf-8'))
                if _norm(on_disk) != _norm(d):
                    bad('json-file-is-todict', _norm(d), on_disk, state=state, dump_flag=flag)
            except Exception as e:
                bad('json-path-then-fileobj', 'the same context', f'{type(e).__name__}: {e}',
                    state=state, dump_flag=flag)
            # ... and the other way round: written through the caller's file object, read by path
            p2 = os.path.join(Ctx.tmp, 'c2.json')
            try:
                with open(p2, 'w', encoding='utf-8') as fobj:
                    c0.tojson(fobj, ignore_lattice=flag)
                same(C.fromjson(p2), 'json-fileobj-then-path', state=state, dump_flag=flag)
            except Exception as e:
                bad('json-fileobj-then-path', 'the same context', f'{type(e).__name__}: {e}',
                    state=state, dump_flag=flag)
            pp = pathlib.Path(Ctx.tmp) / 'p.json'
            c0.tojson(pp, ignore_lattice=flag, indent=2)
            same(C.fromjson(pp, raw=True), 'json-pathlib', state=state, dump_flag=flag)
            buf2 = io.StringIO()
            c0.tojson(buf2, ignore_lattice=flag, indent=2)
            same(C.fromjson(io.StringIO(buf2.getvalue())), 'json-fileobj-indent', state=state,
                 dump_flag=flag)
            buf = io.StringIO()
            c0.tojson(buf, ignore_lattice=flag, sort_keys=False)
            text = buf.getvalue()
            same(C.fromjson(io.StringIO(text)), 'json-fileobj', state=state, dump_flag=flag)
            if _norm(json.loads(text)) != _norm(d):
                bad('json-text-is-todict', _norm(d), json.loads(text), state=state, dump_flag=flag)
            if flag is False and state == 'computed':
                Ctx.payloads.append(('json', case.ident(), text.encode('utf-8'), ref_dg))
        # python-literal (lattice included iff already computed)
        c0 = case.fresh_ctx()
        _prep(c0, state)
        s = c0.tostring('python-literal')
        import ast
        lit = ast.literal_eval(s)
        if _norm(lit) != _norm(enc if state != 'never' else no_lat):
            bad('python-literal-is-todict', None, lit, state=state)
        same(C.fromstring(s, 'python-literal'), 'python-literal-string', state=state)
        fp = os.path.join(Ctx.tmp, 'c.py')
        c0.tofile(fp, frmat='python-literal')
        with open(fp, encoding='utf-8') as f:
            ftext = f.read()
        if _norm(ast.literal_eval(ftext)) != _norm(enc if state != 'never' else no_lat):
            bad('python-literal-file-is-todict', None, ftext[:300], state=state)
        for spelled in ('Python-Literal', 'PYTHON-LITERAL'):
            try:
                resolves = concepts.formats.Format[spelled] is concepts.formats.Format['python-literal']
            except Exception:
                resolves = False        # names are case-sensitive in this tree: nothing to compare
            if resolves:
                fq = os.path.join(Ctx.tmp, 'q.py')
                c0.tofile(fq, frmat=spelled)
                with open(fq, encoding='utf-8') as f:
                    if f.read() != ftext:
                        bad('python-literal-file-format-name-spelling', ftext[:200], spelled,
                            state=state)
                if c0.tostring(spelled) != s:
                    bad('python-literal-string-format-name-spelling', s[:200], spelled, state=state)
        same(C.fromfile(fp, frmat='python-literal'), 'python-literal-file', state=state)
        same(concepts.load(fp), 'load-py', state=state)
        # pickle of the context
        for proto in range(0, pickle.HIGHEST_PROTOCOL + 1):
            try:
                blob = pickle.dumps(c0, protocol=proto)
                c1 = pickle.loads(blob)
            except Exception as e:      # pickle's own frames may be the only ones in the traceback
                bad('pickle-context', 'a context', f'{type(e).__name__}: {str(e)[:200]}',
                    state=state, protocol=proto)
                break
            same(c1, 'pickle-context', state=state, protocol=proto)
        else:
            Ctx.payloads.append(('pickle-context', case.ident(), blob, ref_dg))
    # two pickled contexts over the same labels (complemented table), both loaded here, first used last
    inv = [tuple(not b for b in r) for r in case.rows]
    sib = C(case.objs, case.props, inv)
    pa, pb = pickle.dumps(case.fresh_ctx()), pickle.dumps(sib)
    a2 = pickle.loads(pa)
    b2 = pickle.loads(pb)
    same(a2, 'pickle-context-with-sibling')
    try:
        if digest(full_obs(b2)) != digest(full_obs(C(case.objs, case.props, inv))):
            bad('pickle-context-with-sibling', 'sibling context equivalent to its own table', 'differs')
    except Exception as e:
        bad('pickle-context-with-sibling', 'a context', f'{type(e).__name__}: {e}')
    # pickle of the lattice
    lat = fresh.lattice
    for proto in range(0, pickle.HIGHEST_PROTOCOL + 1):
        try:
            blob = pickle.dumps(lat, protocol=proto)
            lat2 = pickle.loads(blob)
        except Exception as e:
            bad('pickle-lattice', 'a lattice', f'{type(e).__name__}: {e}', protocol=proto)
            break
        ctr['calls'] += 1
        ok = False
        try:
            o2 = lattice_obs(lat2)
            ok = digest(o2) == digest(lattice_obs(lat))
        except Exception as e:
            o2 = f'{type(e).__name__}: {e}'
        if not ok:
            bad('pickle-lattice', 'equivalent lattice', str(o2)[:300], protocol=proto)
    else:
        Ctx.payloads.append(('pickle-lattice', case.ident(), blob, digest(lattice_obs(lat))))
    # (3) raw=True under permutations of the stored order
    k = len(enc['lattice'])
    limit = 4 if Ctx.tier == 'quick' else 5
    for perm in order_perms(k, limit):
        for rev in (False, True):
            pd = permute_dict(d_full, perm, rev)
            ctr['hit_raw_permutations'] += 1
            try:
                c1 = C.fromdict(pd, raw=True)
            except Exception as e:
                bad('fromdict-raw-permuted', 'a context', f'{type(e).__name__}: {e}',
                    permutation=perm, reversed_inner=rev)
                break
            if not same(c1, 'fromdict-raw-permuted', permutation=perm, reversed_inner=rev):
                break
            # the same stored order through the JSON entry point
            try:
                c2 = C.fromjson(io.StringIO(json.dumps(pd)), raw=True)
            except Exception as e:
                bad('fromjson-raw-permuted', 'a context', f'{type(e).__name__}: {e}',
                    permutation=perm, reversed_inner=rev)
                break
            if not same(c2, 'fromjson-raw-permuted', permutation=perm, reversed_inner=rev):
                break
        if V:
            break
    return V


def lattice_obs(lat):
    members = list(lat)
    idx = {id(c): k for k, c in enumerate(members)}
    return [(c.extent, c.intent, c.index, c.dindex, tuple(c.objects), tuple(c.properties),
             tuple(idx.get(id(a)) for a in c.atoms),
             tuple(idx.get(id(u)) for u in c.upper_neighbors),
             tuple(idx.get(id(l)) for l in c.lower_neighbors), type(c).__name__,
             c.lattice is lat, lat(c.intent) is c, member_queries(c, lat)) for c in members] + \
        [len(lat), idx.get(id(lat.infimum)), idx.get(id(lat.supremum)),
         c17corpus.mask(str(lat)), _norm(lat._context.todict()) if hasattr(lat, '_context') else None]


def first_diff(a, b):
    na, nb = _norm(a), _norm(b)
    for part in range(len(na)):
        if na[part] != nb[part]:
            x, y = na[part], nb[part]
            if isinstance(x, list) and isinstance(y, list) and len(x) == len(y):
                for u, v in zip(x, y):
                    if u != v:
                        return [part, u], [part, v]
            return [part, x], [part, y]
    return None, None


def check_light(case, ctr):
    """Bigger / structured tables (strata G and the big whole tables): one pass through
    every persistence route, full observation vector against the recomputed lattice."""
    import concepts
    C = concepts.Context
    V = []
    fresh = case.fresh_ctx()
    tables = len(case.ref.concepts) <= 12
    ref_dg = digest(full_obs(fresh, tables))
    d = fresh.todict()
    if _norm(d) != _norm(ref_encoding(case)):
        V.append(common.violation(ID, 'todict-encoding', case.ident(), None, None))
        return V
    k = len(d['lattice'])
    half = {'objects': d['objects'], 'properties': d['properties'], 'context': d['context'],
            'lattice': [(e, i, tuple(reversed(up)), tuple(reversed(lo))) for e, i, up, lo in d['lattice']]}
    buf = io.StringIO()
    fresh.tojson(buf)
    routes = [
        ('fromdict', lambda: C.fromdict(copy.deepcopy(d))),
        ('fromdict-raw-reversed', lambda: C.fromdict(permute_dict(d, list(range(k))[::-1], True), raw=True)),
        ('fromdict-raw-neighbours-reversed', lambda: C.fromdict(half, raw=True)),
        ('fromjson', lambda: C.fromjson(io.StringIO(buf.getvalue()))),
        ('python-literal-string', lambda: C.fromstring(fresh.tostring('python-literal'), 'python-literal')),
        ('pickle-context', lambda: pickle.loads(pickle.dumps(fresh))),
    ]
    for name, fn in routes:
        ctr['calls'] += 1
        try:
            c1 = fn()
            ok = (c1 == fresh) and digest(full_obs(c1, tables)) == ref_dg
            got = 'observation vector differs'
        except Exception as e:
            ok, got = False, f'{type(e).__name__}: {e}'
        if not ok:
            V.append(common.violation(ID, name, case.ident(), 'equivalent to the recomputed lattice', got))
            return V
    ctr['calls'] += 1
    try:
        lat = fresh.lattice
        lat2 = pickle.loads(pickle.dumps(lat))
        ok = digest(lattice_obs(lat2)) == digest(lattice_obs(lat))
        got = 'observation vector differs'
    except Exception as e:
        ok, got = False, f'{type(e).__name__}: {e}'
    if not ok:
        V.append(common.violation(ID, 'pickle-lattice', case.ident(), 'equivalent lattice', got))
    return V


def run_long():
    """Contexts whose label lines are long and whose labels contain blanks (the text
    forms must not depend on line width)."""
    import concepts
    ctr = collections.Counter()
    V = []
    for n, m, word in ((8, 4, 'object number'), (12, 3, 'a b c d e f g'), (3, 12, 'x'),
                       (3, 2, 'empty-object-label'), (3, 2, 'empty-property-label'),
                       (3, 2, 'astral-labels'), (3, 2, 'escape-labels')):
        objs = [f'{word} {i} of the table' for i in range(n)]
        props = [f'property {j} with a rather long name' for j in range(m)]
        if word == 'empty-object-label':        # the empty string is a label like any other
            objs, props = ['', 'b', ' '], ['p', 'q']
        elif word == 'empty-property-label':
            objs, props = ['a', 'b', 'c'], ['p', '']
        elif word == 'astral-labels':           # beyond the Basic Multilingual Plane
            objs, props = ['\U0001F600', 'b\U0001D400', '\u00e4\u20ac'], ['\U0001F4A9p', 'q\uffff']
        elif word == 'escape-labels':           # characters every text form has to escape
            objs, props = ['a\\b', "it's", '"q"\n'], ['\x00', '\x7f\t\r']
        for shift in range(3):
            rows = [tuple((i + j + shift) % 3 == 0 for j in range(m)) for i in range(n)]
            c = concepts.Context(objs[shift:] + objs[:shift], props, rows)
            c.lattice
            ref_dg = digest(full_obs(c))
            info = {'long_labels': [n, m, word, shift]}
            for name, fn in (
                    ('python-literal-string', lambda: concepts.Context.fromstring(
                        c.tostring('python-literal'), 'python-literal')),
                    ('fromjson', lambda: _json_rt(c)),
                    ('fromdict', lambda: concepts.Context.fromdict(c.todict())),
                    ('pickle-context', lambda: pickle.loads(pickle.dumps(c)))):
                ctr['calls'] += 1
                try:
                    c1 = fn()
                    ok = (c1 == c) and digest(full_obs(c1)) == ref_dg
                    got = 'differs'
                except Exception as e:
                    ok, got = False, f'{type(e).__name__}: {e}'
                if not ok:
                    V.append(common.violation(ID, name, info, 'equivalent context', got))
            ctr['tables'] += 1
            ctr['evaluations'] += 1
    return {'counters': dict(ctr), 'violations': V[:3], 'samples': [], 'outcomes': []}


# ---------------------------------------------------------------- size axis

def run_size(shard, tier):
    import concepts
    _, kind, k = shard
    rows = space.scale(kind, k)
    case = e1.Case(rows, ('W', kind, k), space.ASC)
    ctr = collections.Counter()
    V = []
    info = {'family': kind, 'k': k}

    def bad(clause, exp, got, **kw):
        V.append(common.violation(ID, clause, dict(info, **kw), exp, got,
                                  signature=f'C11:{clause}:{kind}',
                                  repro='import concepts, pickle\n'
                                  f'k = {k}\nrows = {"[tuple(i != j for j in range(k)) for i in range(k)]" if kind == "contranominal" else "[tuple(i <= j for j in range(k)) for i in range(k)]" if kind == "ordinal" else "[tuple(i == j for j in range(k)) for i in range(k)]"}\n'
                                  "c = concepts.Context([f'o{i}' for i in range(k)], "
                                  "[f'p{i}' for i in range(k)], rows)\n"
                                  'pickle.loads(pickle.dumps(c.lattice))\n'))

    c = case.fresh_ctx()
    base = lattice_obs(c.lattice)
    dg = digest(base)
    ctr['tables'] += 1
    ctr['evaluations'] += 1
    ctr['size_concepts_max'] = len(c.lattice)
    steps = [
        ('size-dict', lambda: concepts.Context.fromdict(c.todict()).lattice),
        ('size-dict-raw', lambda: concepts.Context.fromdict(
            permute_dict(c.todict(), list(range(len(c.lattice)))[::-1], True), raw=True).lattice),
        ('size-json', lambda: _json_rt(c).lattice),
        ('size-literal', lambda: concepts.Context.fromstring(c.tostring('python-literal'),
                                                             'python-literal').lattice),
        ('size-pickle-context', lambda: pickle.loads(pickle.dumps(c)).lattice),
        ('size-pickle-lattice', lambda: pickle.loads(pickle.dumps(c.lattice))),
    ]
    for name, fn in steps:
        ctr['calls'] += 1
        try:
            lat2 = fn()
            got = digest(lattice_obs(lat2))
        except Exception as e:
            bad(name, 'round trip succeeds', f'{type(e).__name__}: {str(e)[:200]}')
            continue
        if got != dg:
            bad(name, 'equivalent lattice', 'observation vector differs')
    if len(c.lattice) > 2 and kind != 'ordinal':
        ctr['nontrivial'] += 1
    return {'counters': dict(ctr), 'violations': V, 'outcomes': [],
            'samples': [dict(info, concepts=len(c.lattice))]}


def _json_rt(c):
    import concepts
    buf = io.StringIO()
    c.tojson(buf)
    return concepts.Context.fromjson(io.StringIO(buf.getvalue()))


# ---------------------------------------------------------------- shard driver

def run_shard(shard, tier):
    if shard[0] == 'Z':
        try:
            return run_size(shard, tier)
        except common.HarnessError:
            raise
        except Exception as e:
            return {'counters': {'evaluations': 1}, 'samples': [], 'outcomes': [],
                    'violations': [common.library_exception(ID, {'shard': list(shard)}, e)]}
    if shard[0] == 'LONG':
        return run_long()
    if shard[0] in ('G', 'W'):
        return e1.run_shard_generic(shard, tier, ID, check_light, both_labelings=False)
    Ctx.tmp = tempfile.mkdtemp(prefix='verif-c11-', dir='/var/tmp')
    Ctx.payloads = []
    Ctx.tier = tier
    try:
        res = e1.run_shard_generic(shard, tier, ID, check_case, both_labelings=False)
        if Ctx.payloads and not res['violations']:
            res['violations'].extend(child_check(Ctx.payloads, res['counters']))
        return res
    finally:
        shutil.rmtree(Ctx.tmp, ignore_errors=True)
        Ctx.payloads = None


def child_check(payloads, counters):
    """Load every payload in a fresh interpreter with a different hash seed; that interpreter
    pickles what it loaded again, and a third one (yet another seed) loads those - a loaded
    object is a state like any other, so it must pickle as well as the original did."""
    out = []
    batch = os.path.join(Ctx.tmp, 'batch.pickle')
    with open(batch, 'wb') as f:
        pickle.dump([(kind, blob) for kind, _, blob, _ in payloads], f)
    for hop, hseed in ((1, '4242'), (2, '77')):
        nxt = os.path.join(Ctx.tmp, f'batch{hop}.pickle')
        envv = dict(os.environ, PYTHONHASHSEED=hseed, VERIF_REPO=common.REPO)
        r = subprocess.run([common.PY, CHILD, batch, nxt], capture_output=True, text=True,
                           env=envv, timeout=3000)
        lines = r.stdout.splitlines()
        if r.returncode != 0 or len(lines) != len(payloads):
            raise common.HarnessError(f'c11 child failed: {r.stderr[-1500:]}')
        for (kind, ident, blob, dg), line in zip(payloads, lines):
            counters['hit_child_process'] = counters.get('hit_child_process', 0) + 1
            counters['calls'] = counters.get('calls', 0) + 1
            if line != dg:
                clause = f'fresh-process-{kind}' if hop == 1 else f'second-fresh-process-{kind}'
                out.append(common.violation(ID, clause, dict(ident, process_hops=hop), dg, line))
                if len(out) >= 3:
                    break
        if out:
            break
        batch = nxt
    return out


def main(tier):
    return e1.main_e1(__import__(__name__, fromlist=['x']), tier)


def replay(v):
    c = v['case']
    if 'long_labels' in c:
        return run_long()['violations']
    if 'family' in c:
        return run_size(('Z', c['family'], c['k']), 'quick')['violations']
    if c.get('tag') and c['tag'][0] in ('G', 'W'):
        import collections
        for prev in c.get('after', ()):
            if prev['tag'][0] in ('G', 'W'):
                try:
                    check_light(e1.case_from_ident(prev), collections.Counter())
                except Exception:
                    pass
        try:
            return check_light(e1.case_from_ident(c), collections.Counter())
        except Exception as e:
            return [common.library_exception(ID, c, e)]
    Ctx.tmp = tempfile.mkdtemp(prefix='verif-c11-', dir='/var/tmp')
    Ctx.payloads = []
    try:
        mod = __import__(__name__, fromlist=['x'])
        vs = e1.replay_e1(mod, v)
        if not vs and Ctx.payloads:
            vs = child_check(Ctx.payloads, {})
        return vs
    finally:
        shutil.rmtree(Ctx.tmp, ignore_errors=True)
