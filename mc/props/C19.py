"""C19 Ill-formed input raises ValueError; accepted input is represented faithfully.

clause -> what is compared
  Context(o, p, rows) accept <=> both name lists non-empty, duplicate-free, mutually disjoint, one row
                      per object, one cell per property (computed on plain lists); reject = ValueError
                      and nothing else; accepted: objects/properties/bools reproduce the input exactly
                      (cells by truthiness)
  fromdict(d)         every valid serialized dict under every single and every double corruption of a
                      finite menu: accept <=> the statement's rules on the corrupted dict; reject =
                      ValueError; accepted: the table it encodes is reproduced exactly
Corruptions of the stored lattice *content* are outside the statement and are not judged: lattice-
bearing dicts with a table corruption are loaded with ignore_lattice=True.
"""

import collections
import copy
import itertools

from .. import common, space

ID = 'C19'
ENGINE = 'E3-envspace'
LEVEL = 'fault_enumeration'
TECHNIQUE = ('exhaustive fault enumeration: every constructor triple over a bounded name/shape '
             'alphabet and every single and double application of a corruption menu at every '
             'position of every valid serialized dict, on the real constructor/loader')
RULE = ('constructor: every pair of name lists of length 0..3 over {a,b,x,y} x every row-length '
        'vector of 0..3 rows with 0..3 cells x 2 cell fillings; loader: every dict of every table '
        'with <= 6 cells (thorough: <= 8 cells), with and without stored lattice, x every '
        'single and double corruption x flags; non-trivial = distinct inputs that violate at least '
        'one rule (must raise) plus distinct accepted inputs with >= 2 cells')
ASSUMPTIONS = ['"well-typed" = names are strings (or the typed corruption), rows are sequences',
               'any ValueError is accepted as the rejection, whatever its message',
               'stored-lattice content corruptions are not judged']
HITS = ('hit_ragged_right_set', 'hit_index_eq_columns', 'hit_accept', 'hit_reject')

NAMES = ('a', 'b', 'x', 'y', '')     # the empty string is a name like any other



def _triple(c):
    """What the context reports as (objects, properties, bools) - read, then whatever
    mutable containers were handed out are changed by the caller, then read again:
    "represented faithfully" is about the context, not about one lucky first read."""
    first = (tuple(c.objects), tuple(c.properties), [tuple(r) for r in c.bools])
    for handed in (c.bools, c.objects, c.properties):
        if isinstance(handed, list):
            handed.reverse()
            handed.append(('\x00junk',))
    again = (tuple(c.objects), tuple(c.properties), [tuple(r) for r in c.bools])
    if again != first:
        return ('a second read differs from the first', first, again)
    return first

def name_lists():
    for r in range(4):
        yield from itertools.product(NAMES, repeat=r)


def row_vectors():
    for r in range(4):
        yield from itertools.product(range(4), repeat=r)


FILL = [
    lambda i, j: (i + j) % 2 == 0,
    lambda i, j: [1, 0, 'x', '', [0], None, 2.5, ()][(3 * i + j) % 8],
]


def shards(tier):
    lists = list(name_lists())
    sh = [('K', i, min(len(lists), i + 3)) for i in range(0, len(lists), 3)]
    sh.append(('WIDE',))
    bound_single, bound_double = (6, 6) if tier == 'quick' else (8, 8)
    for n, m in space.shapes(bound_single):
        total = 1 << (n * m)
        for start in range(0, total, 8):
            sh.append(('F', n, m, start, min(total, start + 8), n * m <= bound_double))
    return sh


# ---------------------------------------------------------------- constructor

def valid_triple(objs, props, rowlens):
    return (len(objs) > 0 and len(props) > 0
            and len(set(objs)) == len(objs) and len(set(props)) == len(props)
            and not (set(objs) & set(props))
            and len(rowlens) == len(objs) and all(l == len(props) for l in rowlens))


def _h(obj):
    import hashlib
    import json
    return int.from_bytes(hashlib.md5(json.dumps(obj, sort_keys=True, default=repr).encode()).digest()[:8],
                          'big')


def run_constructor(shard):
    import concepts
    distinct = set()
    _, lo, hi = shard
    lists = list(name_lists())
    vectors = list(row_vectors())
    ctr = collections.Counter()
    V = []
    for objs in lists[lo:hi]:
        for props in lists:
            for vec in vectors:
                ok = valid_triple(objs, props, vec)
                for fi, fill in enumerate(FILL):
                    rows = [tuple(fill(i, j) for j in range(l)) for i, l in enumerate(vec)]
                    if fi:
                        rows = [list(r) for r in rows]
                    o_arg = list(objs) if fi else tuple(objs)
                    p_arg = tuple(props) if fi else list(props)
                    ctr['calls'] += 1
                    case = {'objects': list(objs), 'properties': list(props),
                            'rows': common.jsonable(rows)}
                    try:
                        c = concepts.Context(o_arg, p_arg, rows)
                        err = None
                        if fi:      # the caller's own list stays the caller's: changing it
                            o_arg.append('\x00later')     # afterwards must not reach the context
                        else:
                            p_arg.append('\x00later')
                    except ValueError:
                        err = 'ValueError'
                    except Exception as e:
                        err = f'{type(e).__name__}: {e}'
                    if ok:
                        ctr['hit_accept'] += 1
                        if len(objs) * len(props) >= 2:
                            distinct.add(_h(['K', case]))
                        if err is not None:
                            V.append(common.violation(ID, 'valid-accepted', case, 'a context', err))
                        else:
                            exp = [tuple(bool(x) for x in r) for r in rows]
                            got = _triple(c)
                            if got != (tuple(objs), tuple(props), exp):
                                V.append(common.violation(ID, 'accepted-faithful', case,
                                                          [objs, props, exp], got))
                    else:
                        ctr['hit_reject'] += 1
                        distinct.add(_h(['K', case]))
                        if vec and len(vec) == len(objs) and set(vec) >= {len(props)} \
                                and any(l != len(props) for l in vec):
                            ctr['hit_ragged_right_set'] += 1
                        if err is None:
                            V.append(common.violation(
                                ID, 'invalid-rejected', case, 'ValueError', 'accepted',
                                repro='import concepts\n'
                                f'concepts.Context({list(objs)!r}, {list(props)!r}, {rows!r})'
                                '  # must raise ValueError\n'))
                        elif err != 'ValueError':
                            V.append(common.violation(ID, 'rejection-is-ValueError', case,
                                                      'ValueError', err))
                    if len(V) >= 5:
                        break
                if len(V) >= 5:
                    break
            if len(V) >= 5:
                break
    ctr['evaluations'] = ctr['calls']
    ctr['tables'] = hi - lo
    return {'counters': dict(ctr), 'violations': V, 'outcomes': [], 'distinct': distinct,
            'samples': [{'constructor': [list(lists[lo]), ['x', 'a'], [[True, False]]]}]}


# ---------------------------------------------------------------- fromdict corruptions

def corruptions(d):
    """Menu of single corruptions applicable to dict d: (name, function(copy) -> None)."""
    out = []

    def add(name, fn):
        out.append((name, fn))

    for k in ('objects', 'properties', 'context'):
        if k in d:
            add(f'drop-key:{k}', lambda x, k=k: x.pop(k, None))
    for axis in ('objects', 'properties'):
        if axis not in d:
            continue
        names = d[axis]
        other = d.get('properties' if axis == 'objects' else 'objects') or ['zz']
        for i in range(len(names)):
            add(f'drop-name:{axis}:{i}', lambda x, a=axis, i=i: _del(x, a, i))
            add(f'dup-name:{axis}:{i}', lambda x, a=axis, i=i: _dup(x, a, i))
            add(f'nonstring:{axis}:{i}', lambda x, a=axis, i=i: _set(x, a, i, None if i % 2 else 7))
            add(f'overlap:{axis}:{i}', lambda x, a=axis, i=i, o=other: _set(x, a, i, o[0]))
            for j in range(i + 1, len(names)):
                add(f'swap-names:{axis}:{i}:{j}', lambda x, a=axis, i=i, j=j: _swap(x, a, i, j))
    if 'context' in d:
        rows = d['context']
        ncol = len(d.get('properties', ()))
        for r in range(len(rows)):
            add(f'drop-row:{r}', lambda x, r=r: _del(x, 'context', r))
            add(f'index=ncols:{r}', lambda x, r=r, n=ncol: _row(x, r, lambda row: row + [n]))
            add(f'negative-index:{r}', lambda x, r=r: _row(x, r, lambda row: row + [-1]))
            for k in range(len(rows[r])):
                add(f'shift+1:{r}:{k}', lambda x, r=r, k=k: _row(x, r, lambda row: _shift(row, k, 1)))
                add(f'shift-1:{r}:{k}', lambda x, r=r, k=k: _row(x, r, lambda row: _shift(row, k, -1)))
                add(f'repeat-index:{r}:{k}', lambda x, r=r, k=k: _row(x, r, lambda row: row + [row[k]] if k < len(row) else row))
        add('append-row', lambda x: x['context'].append([]) if 'context' in x else None)
    add('lattice-empty', lambda x: x.__setitem__('lattice', []))
    add('lattice-none', lambda x: x.__setitem__('lattice', None))
    return out


def _del(x, a, i):
    if a in x and i < len(x[a]):
        del x[a][i]


def _dup(x, a, i):
    if a in x and i < len(x[a]):
        x[a].append(x[a][i])


def _set(x, a, i, v):
    if a in x and i < len(x[a]):
        x[a][i] = v


def _swap(x, a, i, j):
    if a in x and j < len(x[a]):
        x[a][i], x[a][j] = x[a][j], x[a][i]


def _row(x, r, fn):
    if 'context' in x and r < len(x['context']):
        x['context'][r] = fn(list(x['context'][r]))


def _shift(row, k, delta):
    if k < len(row):
        row[k] += delta
    return row


def judge_dict(d):
    """(accept?, expected triple) by the statement's rules on plain lists."""
    for k in ('objects', 'properties', 'context'):
        if k not in d:
            return False, None
    objs, props, rows = d['objects'], d['properties'], d['context']
    if not all(isinstance(v, str) for v in objs) or not all(isinstance(v, str) for v in props):
        return False, None
    if not objs or not props or len(set(objs)) != len(objs) or len(set(props)) != len(props) \
            or set(objs) & set(props):
        return False, None
    if len(rows) != len(objs):
        return False, None
    for r in rows:
        if len(set(r)) != len(r) or any(not (0 <= i < len(props)) for i in r):
            return False, None
    if 'lattice' in d and d['lattice'] is not None and len(d['lattice']) == 0:
        return False, None
    bools = [tuple(j in set(r) for j in range(len(props))) for r in rows]
    return True, (tuple(objs), tuple(props), bools)


def run_fromdict(shard):
    import concepts
    _, n, m, lo, hi, doubles = shard
    distinct = set()
    ctr = collections.Counter()
    V = []
    objs, props = space.labels(n, m)
    for code in range(lo, hi):
        rows = space.rows_of(n, m, code)
        ctx = concepts.Context(objs, props, rows)
        for with_lattice in (False, True):
            base = ctx.todict(ignore_lattice=not with_lattice)
            base = {k: [list(x) if isinstance(x, tuple) and k in ('context',) else x for x in v]
                    if k != 'lattice' else copy.deepcopy(v) for k, v in base.items()}
            base['objects'] = list(base['objects'])
            base['properties'] = list(base['properties'])
            singles = corruptions(base)
            combos = [()] + [(c,) for c in singles]
            if doubles:
                combos += list(itertools.combinations(singles, 2))
                combos += [(a, b) for a, b in itertools.combinations(singles, 2)][:0]
            for combo in combos:
                d = copy.deepcopy(base)
                for _, fn in combo:
                    fn(d)
                touched_lattice_only = all(nm.startswith('lattice') for nm, _ in combo)
                ok, exp = judge_dict(d)
                flagsets = [{}]
                if with_lattice and not touched_lattice_only:
                    flagsets = [{'ignore_lattice': True}]
                elif not with_lattice or touched_lattice_only:
                    flagsets = [{}, {'raw': True}] if not combo or touched_lattice_only else [{}]
                if touched_lattice_only and combo:
                    # "rejects ... an empty stored lattice" holds whatever the load flags
                    flagsets = flagsets + [{'ignore_lattice': True},
                                           {'ignore_lattice': True, 'require_lattice': True}]
                for flags in flagsets:
                    arg = copy.deepcopy(d)
                    ctr['calls'] += 1
                    case = {'dict': common.jsonable(d), 'flags': flags,
                            'corruptions': [nm for nm, _ in combo]}
                    try:
                        c = concepts.Context.fromdict(arg, **flags)
                        err = None
                    except ValueError:
                        err = 'ValueError'
                    except Exception as e:
                        err = f'{type(e).__name__}: {e}'
                    if ok:
                        ctr['hit_accept'] += 1
                        if err is not None:
                            V.append(common.violation(ID, 'fromdict-valid-accepted', case,
                                                      'a context', err))
                        else:
                            got = _triple(c)
                            if got != exp:
                                V.append(common.violation(ID, 'fromdict-accepted-faithful', case,
                                                          exp, got))
                    else:
                        ctr['hit_reject'] += 1
                        distinct.add(_h(['F', d, flags]))
                        if any(nm.startswith('index=ncols') for nm, _ in combo):
                            ctr['hit_index_eq_columns'] += 1
                        if err is None:
                            V.append(common.violation(
                                ID, 'fromdict-invalid-rejected', case, 'ValueError', 'accepted',
                                repro='import concepts\n'
                                f'concepts.Context.fromdict({d!r}, **{flags!r})  # must raise ValueError\n'))
                        elif err != 'ValueError':
                            V.append(common.violation(ID, 'fromdict-rejection-is-ValueError', case,
                                                      'ValueError', err))
                    if len(V) >= 5:
                        break
                if len(V) >= 5:
                    break
            if len(V) >= 5:
                break
        ctr['tables'] += 1
        if len(V) >= 5:
            break
    ctr['evaluations'] = ctr['calls']
    return {'counters': dict(ctr), 'violations': V, 'outcomes': [], 'distinct': distinct,
            'samples': [{'fromdict': {'objects': list(objs), 'properties': list(props)},
                         'corruptions': ['drop-name:objects:0', 'index=ncols:0']}]}


def run_wide(tier):
    """Big valid dicts (300 columns / 300 rows / 70 x 70) and label sets that differ only
    by Unicode normalisation or case: every single corruption, and the valid dict itself."""
    import concepts
    ctr = collections.Counter()
    V = []
    distinct = set()
    bases = []
    for n, m in ((2, 300), (300, 2), (70, 70), (4, 4)):
        objs = [f'o{i}' for i in range(n)]
        props = [f'p{j}' for j in range(m)]
        if (n, m) == (4, 4):    # canonically equivalent but different strings, and case twins
            objs = ['e\u0301', '\u00e9', 'A', 'a']
            props = ['o\u0308', '\u00f6', 'SS', '\u00df']
        rows = [[j for j in range(m) if (i * 3 + j) % 7 in (0, 1) or j == m - 1 - (i % 2)]
                for i in range(n)]
        bases.append({'objects': objs, 'properties': props, 'context': rows})
    for base in bases:
        singles = [c for c in corruptions(base)
                   if not c[0].startswith(('swap-names', 'shift', 'repeat-index'))
                   or c[0].endswith((':0', ':0:0', ':0:1'))][:400]
        for combo in [()] + [(c,) for c in singles]:
            d = copy.deepcopy(base)
            for _, fn in combo:
                fn(d)
            ok, exp = judge_dict(d)
            case = {'dict_shape': [len(base['objects']), len(base['properties'])],
                    'names': base['objects'][:4] + base['properties'][:4],
                    'corruptions': [nm for nm, _ in combo], 'wide': True}
            ctr['calls'] += 1
            try:
                c = concepts.Context.fromdict(copy.deepcopy(d))
                err = None
            except ValueError as e:
                err = 'ValueError'
                msg = str(e)
            except Exception as e:
                err = f'{type(e).__name__}: {e}'
            if ok:
                ctr['hit_accept'] += 1
                if err is not None:
                    V.append(common.violation(ID, 'fromdict-valid-accepted', case, 'a context',
                                              err + (': ' + msg if err == 'ValueError' else '')))
                else:
                    got = _triple(c)
                    if got != exp:
                        V.append(common.violation(ID, 'fromdict-accepted-faithful', case, None, None))
            else:
                ctr['hit_reject'] += 1
                distinct.add(_h(['W', case]))
                if err is None:
                    V.append(common.violation(ID, 'fromdict-invalid-rejected', case, 'ValueError',
                                              'accepted'))
                elif err != 'ValueError':
                    V.append(common.violation(ID, 'fromdict-rejection-is-ValueError', case,
                                              'ValueError', err))
            if len(V) >= 4:
                break
        # the constructor with the same triple
        objs, props = base['objects'], base['properties']
        rows = [tuple(j in set(r) for j in range(len(props))) for r in base['context']]
        ctr['calls'] += 1
        try:
            c = concepts.Context(objs, props, rows)
            if (list(c.objects), list(c.properties), [tuple(r) for r in c.bools]) != \
                    (objs, props, rows):
                V.append(common.violation(ID, 'accepted-faithful', {'wide': True, 'names': objs[:4]},
                                          None, None))
        except Exception as e:
            V.append(common.violation(ID, 'valid-accepted', {'wide': True, 'names': objs[:4]},
                                      'a context', f'{type(e).__name__}: {e}'))
        ctr['tables'] += 1
    ctr['evaluations'] = ctr['calls']
    return {'counters': dict(ctr), 'violations': V[:4], 'outcomes': [], 'distinct': distinct,
            'samples': []}


def run_shard(shard, tier):
    try:
        if shard[0] == 'WIDE':
            return run_wide(tier)
        if shard[0] == 'K':
            return run_constructor(shard)
        return run_fromdict(shard)
    except common.HarnessError:
        raise


def main(tier):
    import time
    t0 = time.time()
    res = common.Result(ID)
    res.expected_hits = HITS
    common.run_pool(res, __name__, 'run_shard', shards(tier), tier,
                    budget_s={'quick': 300, 'thorough': 3000}[tier], maxtasks=8)
    res.outcomes = {'accept', 'reject'} if res.counters.get('hit_accept') and \
        res.counters.get('hit_reject') else set()
    return common.finish(res, tier, LEVEL, RULE, ASSUMPTIONS, t0)


def replay(v):
    import concepts
    c = v['case']
    out = []
    if c.get('wide'):
        return run_wide('quick')['violations']
    if 'dict' in c:
        d = c['dict']
        ok, exp = judge_dict(d)
        try:
            ctx = concepts.Context.fromdict(copy.deepcopy(d), **c.get('flags', {}))
            err = None
        except ValueError:
            err = 'ValueError'
        except Exception as e:
            err = f'{type(e).__name__}: {e}'
    else:
        rows = [tuple(r) for r in c['rows']]
        ok = valid_triple(c['objects'], c['properties'], [len(r) for r in rows])
        exp = (tuple(c['objects']), tuple(c['properties']), [tuple(bool(x) for x in r) for r in rows])
        try:
            ctx = concepts.Context(c['objects'], c['properties'], rows)
            err = None
        except ValueError:
            err = 'ValueError'
        except Exception as e:
            err = f'{type(e).__name__}: {e}'
    if ok and err is not None:
        out.append(common.violation(ID, v['clause'], c, 'a context', err))
    elif ok:
        got = _triple(ctx)
        if got != (tuple(exp[0]), tuple(exp[1]), [tuple(r) for r in exp[2]]):
            out.append(common.violation(ID, v['clause'], c, exp, got))
    elif err != 'ValueError':
        out.append(common.violation(ID, v['clause'], c, 'ValueError', err or 'accepted'))
    return out
