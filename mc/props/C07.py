"""C07 join and meet are the least upper and greatest lower bounds.

clause -> what is compared
  lattice.join(S) / meet(S)     `is` the member at R1's least upper / greatest lower bound, found by
                                search in the inclusion order; S = every multiset of size 0,1,2,
                                every multiset of size 3 (<= 8 concepts), the full list, the full
                                list doubled; passed as list and as generator
  extent(join) / extent(meet)   == closure of the union / intersection of extents (R1)
  empty join / empty meet       `is` infimum / supremum
  binary forms                  x.join(y) is x | y is lattice.join([x, y]); same for meet
  laws on the real results      commutative, idempotent, absorption, x<=y <=> x|y is y <=> x&y is x,
                                associative on all triples (<= 8 concepts)
"""

import itertools

from .. import common, e1

ID = 'C07'
LEVEL = 'model_checking'
RULE = ('tables: S(12)/S(16) ∪ F, two labelings; every ordered pair of concepts, every triple for '
        'lattices with <= 8 concepts, empty/full/doubled collections; non-trivial = lattice has '
        '> 2 concepts and is not a chain; distinct = distinct table')
ASSUMPTIONS = ['R1 bounds are found by search among all concepts (independent of closing a union)']
HITS = ('hit_union_not_closed', 'hit_empty_collection', 'hit_orphan_concepts')
BUDGET = {'quick': 240, 'thorough': 3000}


BIG = 40


def shards(tier):
    return e1.std_shards(tier, with_p=True, with_big=True, with_hist=True)


def check_case(case, ctr):
    V = []
    ref = case.ref
    al = case.align()
    if al is None:
        return [e1.misaligned(ID, case)]
    lat = case.lat
    k = len(al)
    R = range(k)

    def bad(clause, exp, got, **kw):
        V.append(common.violation(ID, clause, case.ident(**kw), exp, got,
                                  repro=case.py_ctx() + 'l = c.lattice\n'
                                  f'# {clause} {kw}\n'))

    J = [[None] * k for _ in R]
    M = [[None] * k for _ in R]
    union_not_closed = False
    big = k > BIG

    def partners(i):
        """Every j for lattices up to BIG concepts; for bigger ones the structurally
        interesting partners: bounds, itself, its covers, its mirror and two strides."""
        if not big:
            return R
        return sorted({0, k - 1, i, k - 1 - i, (i * 7 + 3) % k, (i + k // 2) % k}
                      | set(ref.upper_covers(i)) | set(ref.lower_covers(i)))

    for i in R:
        for j in partners(i):
            x, y = al[i], al[j]
            if big:     # closure of the union / intersection (shown equal to the searched
                        # bounds on every lattice up to BIG concepts, see below)
                ej = ref.index_of_extent(ref.closure_objs(ref.concepts[i][0] | ref.concepts[j][0]))
                em = ref.index_of_extent(ref.concepts[i][0] & ref.concepts[j][0])
            else:
                ej, em = ref.join([i, j]), ref.meet([i, j])
            a, b, c = x.join(y), x | y, lat.join([x, y])
            d, e, f = x.meet(y), x & y, lat.meet([x, y])
            ctr['calls'] += 6
            if a is not al[ej] or b is not a or c is not a:
                bad('binary-join', ej, [case.pos(a), case.pos(b), case.pos(c)], pair=[i, j])
                return V
            if d is not al[em] or e is not d or f is not d:
                bad('binary-meet', em, [case.pos(d), case.pos(e), case.pos(f)], pair=[i, j])
                return V
            J[i][j], M[i][j] = ej, em
            union = ref.concepts[i][0] | ref.concepts[j][0]
            if ref.concepts[ej][0] != ref.closure_objs(union):
                raise common.HarnessError('R1 join is not the closure of the union')
            if ref.concepts[em][0] != ref.concepts[i][0] & ref.concepts[j][0]:
                raise common.HarnessError('R1 meet is not the intersection')
            if ref.concepts[ej][0] != union:
                union_not_closed = True
    if union_not_closed:
        ctr['hit_union_not_closed'] += 1
    # laws, evaluated on what the library returned
    for i in R:
        if J[i][i] != i or M[i][i] != i:
            bad('idempotent', i, [J[i][i], M[i][i]])
        for j in partners(i):
            if big:
                if al[j] | al[i] is not al[J[i][j]] or al[j] & al[i] is not al[M[i][j]]:
                    bad('commutative', None, [i, j])
                continue
            if J[i][j] != J[j][i] or M[i][j] != M[j][i]:
                bad('commutative', None, [i, j])
            if J[i][M[i][j]] != i or M[i][J[i][j]] != i:
                bad('absorption', None, [i, j])
            le = bool(al[i] <= al[j])
            if le != (J[i][j] == j) or le != (M[i][j] == i):
                bad('order-vs-bounds', None, [i, j])
    if k <= 8:
        for i, j, l in itertools.product(R, repeat=3):
            if J[J[i][j]][l] != J[i][J[j][l]] or M[M[i][j]][l] != M[i][M[j][l]]:
                bad('associative', None, [i, j, l])
                break
    # n-ary forms
    colls = [[]] + [[i] for i in R] + [list(R), list(R) * 2, list(R)[1:-1], list(R)[:-1],
                                       list(R)[1:]]
    if k <= 8:
        colls += [list(t) for t in itertools.product(R, repeat=3)]
    else:
        colls += [[i, j, k - 1 - i] for i in R for j in (0, i)]
    for coll in colls:
        objs = [al[i] for i in coll]
        if coll:
            ej, em = ref.join(coll), ref.meet(coll)
        else:
            ej, em = ref.bottom, ref.top
            ctr['hit_empty_collection'] += 1
        gj, gm = lat.join(objs), lat.meet(objs)
        gj2, gm2 = lat.join(x for x in objs), lat.meet(iter(objs))
        ctr['calls'] += 4
        if gj is not al[ej] or gj2 is not gj:
            bad('nary-join', ej, case.pos(gj), collection=coll)
            break
        if gm is not al[em] or gm2 is not gm:
            bad('nary-meet', em, case.pos(gm), collection=coll)
            break
    if lat.join([]) is not lat.infimum or lat.meet([]) is not lat.supremum:
        bad('empty-join-meet', None, None)
    # concepts kept after every other reference to their context and lattice is dropped
    if case.n * case.m <= 6 and case.variant == 'fresh' and case.labeling == 'asc' and not V:
        import gc
        kept = list(case.fresh_ctx().lattice)
        gc.collect()
        ctr['hit_orphan_concepts'] += 1
        for i in R:
            for j in R:
                ctr['calls'] += 2
                try:
                    a, b = kept[i] | kept[j], kept[i] & kept[j]
                    ok = a is kept[J[i][j]] and b is kept[M[i][j]]
                except Exception as e:
                    ok, a = False, f'{type(e).__name__}: {e}'
                if not ok:
                    bad('join-meet-of-kept-concepts', [J[i][j], M[i][j]], repr(a), pair=[i, j])
                    return V
    return V


def run_shard(shard, tier):
    return e1.run_shard_generic(shard, tier, ID, check_case, variants=('pickle', 'fromdict-raw', 'used'))


def main(tier):
    return e1.main_e1(__import__(__name__, fromlist=['x']), tier)


def replay(v):
    return e1.replay_e1(__import__(__name__, fromlist=['x']), v)
