"""C20 The Graphviz export is a faithful drawing of the labelled Hasse diagram.

clause -> what is compared (graphviz().body parsed by mc/dotparse.py)
  nodes            node statements == {c<index>} of the members, once each
  edges            attribute-less edge statements == one per R1 cover pair, tail = upper concept,
                   head = lower concept, none else, none twice
  object label     a self-loop with `headlabel` exactly on the concepts that carry objects in R1's
                   reduced labelling, text == callback(that label tuple)
  property label   a self-loop with `taillabel` exactly on those carrying properties
  callback input   the callbacks are called with exactly those names
"""

from .. import common, dotparse, e1, space

ID = 'C20'
LEVEL = 'model_checking'
RULE = ('tables: S(12)/S(16) ∪ F; labelings ascending, descending, and (tables up to 9 cells) one '
        'with blanks, quotes and non-ASCII; four label callbacks (one returning an empty text); non-trivial = lattice has > 2 '
        'concepts and is not a chain; distinct = distinct table')
ASSUMPTIONS = ['the DOT text is read by an independent parser written from the DOT grammar',
               'labels without backslashes and not of the form <...> (DOT escape / HTML syntax is '
               'outside the statement)']
HITS = ('hit_one_concept', 'hit_two_concepts', 'hit_multi_label', 'hit_failed_drawing')
BUDGET = {'quick': 240, 'thorough': 3000}


def shards(tier):
    return e1.std_shards(tier, with_p=True, with_big=True, with_hist=True)


CALLBACKS = [
    ('default', None),
    ('comma', ','.join),
    ('tag', lambda names: 'L[' + '|'.join(names) + ']'),
    ('empty-text', lambda names: ''),      # a label whose text is empty is still a label
]


def PADDED(names):
    return '  ' + ' , '.join(names) + ' '


class Failing:
    """Label callbacks that share one call counter and raise at the j-th call."""

    class Boom(Exception):
        pass

    last = None

    def __init__(self, j):
        self.j, self.n = j, 0
        Failing.last = self

    def wrap(self, cb):
        def f(names):
            self.n += 1
            if self.n - 1 == self.j:
                raise Failing.Boom()
            return cb(names)
        return f


def check_case(case, ctr):
    V = []
    ref = case.ref
    al = case.align()
    if al is None:
        return [e1.misaligned(ID, case)]
    lat = case.lat
    k = len(al)

    def bad(clause, exp, got, **kw):
        V.append(common.violation(ID, clause, case.ident(**kw), exp, got,
                                  repro=case.py_ctx() + 'print(c.lattice.graphviz().source)\n'))

    olabs, plabs = ref.object_labels(), ref.property_labels()
    name = {i: al[i].index for i in range(k)}       # nodes are named by the index
    exp_nodes = sorted(name.values())
    exp_edges = sorted((name[i], name[j]) for i in range(k) for j in ref.lower_covers(i))
    if k == 1:
        ctr['hit_one_concept'] += 1
    if k == 2:
        ctr['hit_two_concepts'] += 1
    if any(len(x) > 1 for x in olabs + plabs):
        ctr['hit_multi_label'] += 1
    runs = [(n, c, c) for n, c in CALLBACKS]
    # repeated drawings of the SAME lattice with one callback changed at a time
    runs += [('comma/tag', CALLBACKS[1][1], CALLBACKS[2][1]),
             ('comma/comma', CALLBACKS[1][1], CALLBACKS[1][1]),
             ('tag/comma', CALLBACKS[2][1], CALLBACKS[1][1]),
             # only one of the two callbacks given: the other keeps its default
             ('comma/-', CALLBACKS[1][1], None), ('-/tag', None, CALLBACKS[2][1]),
             # the text is the callback's, blanks at its ends included
             ('padded', PADDED, PADDED)]
    # a drawing that fails midway (a callback raising at its j-th call, every j on small tables)
    # must not change what the next drawing of the same lattice shows
    ncalls = sum(1 for x in olabs if x) + sum(1 for x in plabs if x)
    points = range(ncalls) if case.n * case.m <= 12 else sorted({0, ncalls // 2, ncalls - 1} - {-1})
    for j in points:
        runs.append((f'after-failure-at-{j}', CALLBACKS[2][1], CALLBACKS[2][1]))
    for cbname, cb, cbp in runs:
        seen_args = []
        fo = cb if cb is not None else ' '.join
        fp = cbp if cbp is not None else ' '.join
        lat = case.lat
        if cbname.startswith('after-failure-at-'):
            ctr['hit_failed_drawing'] += 1
            if case.n * case.m <= 12 and case.variant == 'fresh':
                lat = case.fresh_ctx().lattice      # the failed drawing is this lattice's first
            try:
                lat.graphviz(make_object_label=Failing(int(cbname.rsplit('-', 1)[1])).wrap(cb),
                             make_property_label=Failing.last.wrap(cbp))
            except Failing.Boom:
                pass
        if cb is None and cbp is None:
            scratch = lat.graphviz()       # a returned drawing is the caller's to extend
            try:
                scratch.node('\x00junk')
                scratch.edge('\x00junk', 'c0')
                scratch.body.append('\tjunk -> junk')
            except Exception:
                pass
            dot = lat.graphviz()
        elif cbname == 'tag/comma':
            # documented parameter order: filename, directory, render, view, then the callbacks
            dot = lat.graphviz(None, None, False, False, cb, cbp)
        elif cb is None:
            dot = lat.graphviz(make_property_label=cbp)
        elif cbp is None:
            dot = lat.graphviz(make_object_label=cb)
        else:
            dot = lat.graphviz(make_object_label=cb, make_property_label=cbp)
        ctr['calls'] += 1
        try:
            stmts = [dotparse.parse_statement(l) for l in dot.body]
        except dotparse.DotError as e:
            bad('dot-syntax', 'parseable statements', str(e), callback=cbname)
            continue
        try:
            stmts = [(s[0], node_index(s[1])) + ((node_index(s[2]),) + s[3:] if s[0] == 'edge'
                                                 else s[2:]) for s in stmts]
        except ValueError as e:
            bad('node-named-by-index', 'a name carrying the concept index', str(e), callback=cbname)
            continue
        nodes = sorted(s[1] for s in stmts if s[0] == 'node')
        if nodes != exp_nodes:
            bad('nodes', exp_nodes, nodes, callback=cbname)
        plain = sorted((s[1], s[2]) for s in stmts if s[0] == 'edge' and s[1] != s[2])
        if plain != exp_edges:
            bad('edges', exp_edges, plain, callback=cbname)
        loops = [s for s in stmts if s[0] == 'edge' and s[1] == s[2]]
        exp_head = sorted((name[i], fo(case.olab(olabs[i])))
                          for i in range(k) if olabs[i])
        exp_tail = sorted((name[i], fp(case.plab(plabs[i])))
                          for i in range(k) if plabs[i])
        got_head = sorted((s[1], s[3]['headlabel']) for s in loops if 'headlabel' in s[3])
        got_tail = sorted((s[1], s[3]['taillabel']) for s in loops if 'taillabel' in s[3])
        if got_head != exp_head:
            bad('object-labels', exp_head, got_head, callback=cbname)
        if got_tail != exp_tail:
            bad('property-labels', exp_tail, got_tail, callback=cbname)
        if any('headlabel' not in s[3] and 'taillabel' not in s[3] for s in loops):
            bad('unlabelled-self-loop', None, [s[1] for s in loops], callback=cbname)
        if cb is not None and cbname == 'tag':
            # what the callbacks are called with: exactly those names
            rec = []
            lat.graphviz(make_object_label=lambda t: rec.append(('o', tuple(t))) or 'x',
                         make_property_label=lambda t: rec.append(('p', tuple(t))) or 'y')
            exp_args = sorted([('o', case.olab(x)) for x in olabs if x]
                              + [('p', case.plab(x)) for x in plabs if x])
            if sorted(rec) != exp_args:
                bad('callback-input', exp_args, sorted(rec), callback=cbname)
    return V


def node_index(name):
    """The concept index a node name carries (its only / trailing number)."""
    import re
    mo = re.fullmatch(r'\D*(\d+)', name)
    if mo is None:
        raise ValueError(f'node name {name!r} does not carry an index')
    return int(mo.group(1))


def run_shard(shard, tier):
    res = e1.run_shard_generic(shard, tier, ID, check_case, variants=('pickle', 'fromdict-raw', 'used'))
    if shard[0] == 'S' and shard[1] * shard[2] <= 9:
        import collections
        ctr = collections.Counter()
        for n, m, rows, tag in space.tables_of_shard(shard):
            case = e1.Case(rows, tag, space.WEIRD)
            try:
                vs = check_case(case, ctr)
            except Exception as e:
                vs = [common.library_exception(ID, case.ident(), e)]
            e1.track(case, vs, tier)
            ctr['evaluations'] += 1
            res['violations'].extend(vs[:2])
        for k_, v_ in ctr.items():
            res['counters'][k_] = res['counters'].get(k_, 0) + v_
    return res


def main(tier):
    return e1.main_e1(__import__(__name__, fromlist=['x']), tier)


def replay(v):
    return e1.replay_e1(__import__(__name__, fromlist=['x']), v)
