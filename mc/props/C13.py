"""C13 Every edit history of a Definition matches the ordered-table model.

Explicit-state BFS (mc/explore.py) to a fixpoint over a bounded name universe;
on every transition the step oracle compares the real object with R2:

clause -> what is compared
  accepted call      returns; (objects, properties, bools) == model triple; return value == model's
                     (None; removed-name list for remove_empty_*; `self` for |= and &=)
  rejected call      raises an Exception AND the visible triple is unchanged
  equals fresh       real == Definition(*triple) and Definition(*triple) == real, not (real != ...)
  bools shape        one row per object, one cell per property
  cell reads         d[o, p] for every universe pair agrees with the model; KeyError for absent names
move_* follows plain list semantics (take the name out, list.insert at the index) for every
integer index from -len-1 to len+1.  Never judged (left open by the statement): rename x -> x,
the exception class.
"""

import collections
import time

from .. import common, env, explore, tablemodel as tm

ID = 'C13'
ENGINE = 'E2-histspace'
LEVEL = 'model_checking'
TECHNIQUE = ('explicit-state breadth-first search over the real Definition mutators to a fixpoint '
             '(state hashing on a generic structural snapshot), every operation instance of a '
             'bounded name universe, step-wise conformance against the ordered-table model')
RULE = ('states = distinct structural snapshots of Definition objects reachable from Definition() '
        'over the name universe; transitions = (state, operation instance) pairs executed on the '
        'real object and on the model; non-trivial = states with >= 2 objects, >= 2 properties '
        'and at least one true and one false cell')
ASSUMPTIONS = ['R2 (mc/tablemodel.py) is the reading of the statement: new names are appended in '
               'the order given, then cells set/cleared',
               'labels are HashLabel strings with harness-assigned hashes under two opposite rank '
               'assignments, so an order leak through a set is a deterministic mismatch',
               'successor states are copied by pickle round trip, never by Definition.copy()']

UNIVERSES = {
    'quick': [(('a', 'b', 'c'), ('x', 'y')), (('a', 'b'), ('x', 'y', 'z')),
              (('a', 'b', 'c'), ('a', 'y'))],
    'thorough': [(('a', 'b', 'c'), ('x', 'y', 'z')), (('a', 'b', 'c'), ('a', 'y', 'z')),
                 (('a', 'b', 'c', 'd'), ('x', 'y'))],
}


def pool_for(universe):
    """Definitions offered to union/intersection: all 113 over a 2x2 sub-universe."""
    return list(tm.all_states(universe[0][:2], universe[1][:2]))


def rank_assignments(universe):
    names = sorted(set(universe[0]) | set(universe[1]))
    up = {n: i for i, n in enumerate(names)}
    down = {n: len(names) - 1 - i for i, n in enumerate(names)}
    return [('ascending', up), ('descending', down)]


def RANKSEL(tier, universe):
    """thorough: both rank assignments on every universe; quick: one each, alternating."""
    if tier == 'thorough':
        return slice(0, 2)
    i = UNIVERSES['quick'].index(universe) % 2
    return slice(i, i + 1)


def nontrivial(model):
    objs, props, cells = model
    return len(objs) >= 2 and len(props) >= 2 and 0 < len(cells) < len(objs) * len(props)


def main(tier):
    t0 = time.time()
    common.ensure_repo_import()
    res = common.Result(ID)
    res.expected_hits = ('rejected_calls', 'calls_creating_names')
    total_states = total_trans = validated = 0
    runs = []
    outcomes = set()
    budget = {'quick': 200, 'thorough': 3000}[tier]
    for universe in UNIVERSES[tier]:
        pool = pool_for(universe)
        for rname, ranks in rank_assignments(universe)[RANKSEL(tier, universe)]:
            r = explore.bfs(universe, pool, ranks, ID, budget_s=budget)
            total_states += r['states']
            total_trans += r['transitions']
            res.counters.update(r['counters'])
            runs.append({'universe': [list(universe[0]), list(universe[1])], 'ranks': rname,
                         'states': r['states'], 'transitions': r['transitions'],
                         'levels': r['levels'], 'exhaustive': r['exhaustive'],
                         'pool': len(pool)})
            if not r['exhaustive']:
                res.capped = True
                res.notes.append(f'state/time cap hit in universe {universe} ranks {rname}')
            for v in r['violations']:
                hist = explore.history_of(r['seen'], v['parent'])
                case = {'universe': [list(universe[0]), list(universe[1])],
                        'ranks': ranks, 'history': hist, 'op': v['op']}
                res.violations.append(common.violation(
                    ID, v['clause'], case, v['expected'], v['observed'],
                    repro=make_repro(case)))
            if r['violations']:
                break
            # determinism / trace validation: every state's history replayed on a fresh object
            env.HashLabel.ranks = dict(ranks)
            nt = 0
            for key in r['seen']:
                hist = explore.history_of(r['seen'], key)
                real = explore.make_real(tm.EMPTY)
                model = tm.EMPTY
                for h in hist:
                    op = explore.dec_op(h)
                    try:
                        explore.apply_real(real, op)
                    except Exception:
                        pass
                    try:
                        model = tm.apply(model, op)[0]
                    except (tm.Reject, tm.Open):
                        pass
                if explore.canon(real) != key:
                    raise common.HarnessError(f'history replay diverged for {hist}')
                validated += 1
                # differential: the same visible triple reached through the constructor
                try:
                    if explore.canon(explore.make_real(model)) != key:
                        res.counters['states_with_hidden_residue'] += 1
                except Exception:
                    res.counters['states_with_hidden_residue'] += 1
                if nontrivial(model):
                    nt += 1
                outcomes.add(repr(tm.triple(model)))
                if len(res.samples) < 4 and len(hist) >= 3 and nontrivial(model):
                    res.samples.append({'history': hist, 'reaches': tm.triple(model)})
            res.counters['nontrivial'] += nt if (rname == 'ascending' or tier == 'quick') else 0
        if res.violations:
            break
    if not res.violations:
        nb, tb = big_phase(res)
        total_states += nb
        total_trans += tb
    res.counters['tables'] = total_states
    res.counters['calls'] = total_trans
    res.counters['traces_validated'] = validated
    res.counters['evaluations'] = total_trans
    res.shards_total = res.shards_done = len(runs)
    res.extra['runs'] = runs
    res.extra['states_with_hidden_residue'] = int(res.counters.get('states_with_hidden_residue', 0))
    res.outcomes = outcomes
    return common.finish(res, tier, LEVEL, RULE, ASSUMPTIONS, t0)


def big_phase(res):
    """Depth-2 exploration from big constructor-built states (12 x 9 names) with long
    argument lists: thresholds on the number of names need longer axes than the BFS
    universes have.  Every base state x every big operation x every follow-up."""
    import collections
    import pickle
    from .. import bigdefs
    universe = bigdefs.UNIVERSE
    names = sorted(set(universe[0]) | set(universe[1]))
    states = transitions = 0
    for rname, ranks in (('ascending', {n: i for i, n in enumerate(names)}),
                         ('descending', {n: len(names) - i for i, n in enumerate(names)})):
        env.HashLabel.ranks = dict(ranks)
        ctr = collections.Counter()
        for sname, s in bigdefs.base_states():
            blob0 = pickle.dumps(explore.make_real(s))
            states += 1
            for op in bigdefs.big_ops(s):
                real = pickle.loads(blob0)
                V, m1 = explore.step(real, s, op, universe, ctr)
                hist = []
                if not V and m1 is not None:
                    blob1 = pickle.dumps(real)
                    states += 1
                    for op2 in bigdefs.followups(m1):
                        real2 = pickle.loads(blob1)
                        V, _ = explore.step(real2, m1, op2, universe, ctr)
                        if V:
                            hist, op = [explore.enc_op(op)], op2
                            break
                if V:
                    v = V[0]
                    case = {'universe': [list(universe[0]), list(universe[1])], 'ranks': ranks,
                            'start': list(tm.triple(s)), 'start_name': sname, 'history': hist,
                            'op': explore.enc_op(op)}
                    res.violations.append(common.violation(ID, v['clause'], case, v['expected'],
                                                           v['observed']))
                    break
            if res.violations:
                break
        transitions += ctr['transitions']
        res.counters.update(ctr)
        if res.violations:
            break
    # one name owning most of the true cells (a full row / column of 10-19 cells), renamed:
    # every cell must move with it, whatever the hash layout of the cell set (16 rank rotations
    # and plain str hashing)
    if not res.violations:
        ctr = collections.Counter()
        for n in range(10, 20):
            wide = tuple(f'w{j:02d}' for j in range(n))
            for axis in ('object', 'property'):
                if axis == 'object':
                    s = (('solo',), wide, frozenset(('solo', w) for w in wide))
                    op = ('rename_object', 'solo', 'renamed')
                    uni = (('solo', 'renamed'), wide)
                else:
                    s = (wide, ('solo',), frozenset((w, 'solo') for w in wide))
                    op = ('rename_property', 'solo', 'renamed')
                    uni = (wide, ('solo', 'renamed'))
                nm = sorted(set(uni[0]) | set(uni[1]))
                for rot in list(range(16)) + [None]:
                    ranks = {} if rot is None else {x: (i * 5 + rot * 3) % (len(nm) + 7)
                                                    for i, x in enumerate(nm)}
                    env.HashLabel.ranks = ranks
                    real = explore.make_real(s)
                    V, _ = explore.step(real, s, op, uni, ctr)
                    states += 1
                    if V:
                        case = {'universe': [list(uni[0]), list(uni[1])], 'ranks': ranks,
                                'start': list(tm.triple(s)), 'start_name': f'{axis}-owning-{n}-cells',
                                'history': [], 'op': explore.enc_op(op)}
                        res.violations.append(common.violation(ID, V[0]['clause'], case,
                                                               V[0]['expected'], V[0]['observed']))
                        break
                if res.violations:
                    break
            if res.violations:
                break
        transitions += ctr['transitions']
        res.counters.update(ctr)
    env.HashLabel.ranks = {}
    res.counters['big_phase_transitions'] = transitions
    return states, transitions


def make_repro(case):
    lines = ['import concepts', 'd = concepts.Definition()']
    for h in case['history'] + [case['op']]:
        op = explore.dec_op(h)
        name = op[0]
        if name == 'setitem':
            lines.append(f'd[{op[1]!r}, {op[2]!r}] = {op[3]!r}')
        elif name in ('union_update', 'intersection_update', 'ior', 'iand'):
            t = tm.triple(op[1])
            other = f'concepts.Definition({list(t[0])!r}, {list(t[1])!r}, {t[2]!r})'
            if name == 'ior':
                lines.append(f'd |= {other}')
            elif name == 'iand':
                lines.append(f'd &= {other}')
            else:
                lines.append(f'd.{name}({other}, ignore_conflicts={op[2]!r})')
        else:
            args = ', '.join(repr(list(a) if isinstance(a, tuple) else a) for a in op[1:])
            lines.append(f'd.{name}({args})')
    lines.append('print(d.objects, d.properties, d.bools)')
    return ('# note: the exploration uses labels with harness-assigned hashes; with plain str\n'
            '# an order leak may need a particular PYTHONHASHSEED to show\n' + '\n'.join(lines) + '\n')


def replay(v):
    c = v['case']
    universe = (tuple(c['universe'][0]), tuple(c['universe'][1]))
    if 'start' in c:        # big phase: history from a constructor-built state
        import collections
        common.ensure_repo_import()
        env.HashLabel.ranks = dict(c['ranks'])
        model = tm.from_triple(*c['start'])
        real = explore.make_real(model)
        ctr = collections.Counter()
        for h in c['history']:
            _, m2 = explore.step(real, model, explore.dec_op(h), universe, ctr)
            model = m2 if m2 is not None else model
        V, _ = explore.step(real, model, explore.dec_op(c['op']), universe, ctr)
        return [common.violation(ID, x['clause'], c, x['expected'], x['observed']) for x in V]
    V = explore.replay_history(c['history'], c['op'], universe, c['ranks'])
    if not V:
        # the recorded history alone does not show it: the library may keep process-global
        # state, so that a transition depends on transitions made on OTHER objects before it.
        # Deterministic schedule for that: the whole search in one process, in fixed order.
        r = explore.bfs(universe, pool_for(universe), c['ranks'], ID, serial=True)
        out = []
        for x in r['violations'][:1]:
            case = dict(c, history=explore.history_of(r['seen'], x['parent']), op=x['op'],
                        schedule='whole search, one process, fixed order')
            out.append(common.violation(ID, x['clause'], case, x['expected'], x['observed']))
        return out
    return [common.violation(ID, x['clause'], c, x['expected'], x['observed']) for x in V]
