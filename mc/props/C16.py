"""C16 relations() classifies each pair of contingent properties once and correctly.

clause -> what is compared
  entries               [(kind, left, right)] of relations(include_unary) == R1 list: one entry per
                        unordered pair of contingent columns, kind from the typed-in truth-pattern
                        table, implication oriented narrower -> wider; with include_unary one
                        tautology/contradiction/contingency per property
  order                 list order == stable sort by the documented rank (unary in property order,
                        then pairs in combination order)
  printing              str(r), r.tostring(), r.tostring(exclude_orthogonal=True) and print() are
                        defined for EVERY context (also when nothing is listed) and have one line
                        per listed entry (str() lists the non-orthogonal ones), each line carrying
                        left, kind and right
"""

import io

from .. import common, e1, space
from ..refmodel import relations_ref

ID = 'C16'
LEVEL = 'model_checking'
RULE = ('tables: S(12)/S(16) ∪ F (4 objects suffice to realise every combination pattern of two '
        'columns), two labelings, include_unary in {False, True}; non-trivial = lattice has > 2 '
        'concepts and is not a chain; distinct = distinct table')
ASSUMPTIONS = ['the kind of a pair is the textbook name of the set of occurring truth combinations '
               '(table typed into mc/refmodel.py, not parsed from the library docstrings)',
               'rank order: contradiction, tautology, contingency, equivalent, complement, '
               'incompatible, implication, subcontrary, orthogonal (as documented)']
HITS = ('hit_empty_result', 'hit_only_orthogonal', 'hit_replication_swap', 'hit_one_contingent')
BUDGET = {'quick': 240, 'thorough': 3000}


def shards(tier):
    return e1.std_shards(tier, with_p=True, with_big=True, with_hist=True)


def check_case(case, ctr):
    V = []
    ctx = case.ctx

    def bad(clause, exp, got, **kw):
        sig = kw.pop('signature', None)
        V.append(common.violation(ID, clause, case.ident(**kw), exp, got,
                                  repro=case.py_ctx() + f'r = c.relations(**{kw!r})\n'
                                  'print(list(r))\nprint(r)\n',
                                  signature=sig))

    for unary in (False, True):
        exp = [(k, case.props[l], case.props[r] if r is not None else None)
               for k, l, r in relations_ref(case.rows, unary)]
        scratch = ctx.relations(include_unary=unary)
        del scratch[:]                      # a returned list is the caller's to change
        rel = ctx.relations(include_unary=unary)
        case.keep.append(rel)               # stays referenced while the next contexts are examined
        ctr['calls'] += 2
        got = [(r.kind, r.left, r.right if r.__class__.binary else None) for r in rel]
        if sorted(got, key=repr) != sorted(exp, key=repr):
            bad('entries', exp, got, include_unary=unary)
            continue
        if got != exp:
            bad('order', exp, got, include_unary=unary)
        if not exp:
            ctr['hit_empty_result'] += 1
        if exp and all(k == 'orthogonal' for k, _, _ in exp):
            ctr['hit_only_orthogonal'] += 1
        if any(k == 'implication' and case.props.index(l) > case.props.index(r)
               for k, l, r in exp if r is not None):
            ctr['hit_replication_swap'] += 1
        # printing
        for name, fn, listed in (
                ('str', lambda: str(rel), [e for e in exp if e[0] != 'orthogonal']),
                ('tostring', lambda: rel.tostring(), exp),
                ('tostring-exclude', lambda: rel.tostring(exclude_orthogonal=True),
                 [e for e in exp if e[0] != 'orthogonal']),
                ('print', lambda: _printed(rel), [e for e in exp if e[0] != 'orthogonal'])):
            ctr['calls'] += 1
            try:
                text = fn()
            except Exception as e:
                bad('printing-defined', 'a string', f'{type(e).__name__}: {e}',
                    include_unary=unary, form=name,
                    signature=f'C16:printing-defined:{type(e).__name__}')
                break
            lines = text.split('\n') if text else []
            if len(lines) != len(listed):
                bad('printing-lines', len(listed), text, include_unary=unary, form=name)
                break
            for line, (k, l, r) in zip(lines, listed):
                parts = line.split()
                if not (line.startswith(l) and k in parts and (r is None or line.rstrip().endswith(r))):
                    bad('printing-content', [l, k, r], line, include_unary=unary, form=name)
                    break
    ncont = sum(1 for j in range(case.m) if len({row[j] for row in case.rows}) == 2)
    if ncont == 1:
        ctr['hit_one_contingent'] += 1
    return V


def _printed(rel):
    buf = io.StringIO()
    print(rel, file=buf)
    out = buf.getvalue()
    assert out.endswith('\n')
    return out[:-1]


def run_shard(shard, tier):
    res = e1.run_shard_generic(shard, tier, ID, check_case, variants=('used',))
    # the empty string as a property / object label (a label like any other)
    return e1.extra_labeling_pass(shard, tier, ID, check_case, (space.EMPTYP, space.EMPTYO), res)


def main(tier):
    return e1.main_e1(__import__(__name__, fromlist=['x']), tier)


def replay(v):
    return e1.replay_e1(__import__(__name__, fromlist=['x']), v)
