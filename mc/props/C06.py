"""C06 Canonical order: shortlex iteration, index/dindex ranks, bottom first, top last.

clause -> what is compared
  iteration order        [extent positions of iter(lattice)] == R1 concepts sorted by (size, positions)
  index                  c.index == position in iteration
  dindex                 c.dindex == rank under (-size, positions)
  infimum / supremum     first / last of the iteration AND R1's least / greatest concept
  atoms                  set == R1 upper covers of the bottom
  neighbour tuple order  every upper_neighbors sorted by the shortlex key, every lower_neighbors
                         by the longlex key (keys computed by R1 on positions)
  stored-order loaders   fromdict(todict()) and fromdict(reversed lists, raw=True) give the same
                         iteration order / index / dindex
Both labelings: in the descending one every label comparison contradicts position.
"""

import copy

from .. import common, e1
from ..refmodel import shortlex_key, longlex_key

ID = 'C06'
LEVEL = 'model_checking'
RULE = ('tables: S(12)/S(16) ∪ F, two labelings (ascending and descending labels); every concept; '
        'non-trivial = lattice has > 2 concepts and is not a chain; distinct = distinct table')
ASSUMPTIONS = ['shortlex = (number of objects, positions ascending), longlex = (-number, positions): '
               'the reading of "fewer objects first, ties by object position in the context"']
HITS = ('hit_mixed_size_neighbors','hit_dindex_not_reverse_index')
BUDGET = {'quick': 240, 'thorough': 3000}


def shards(tier):
    return e1.std_shards(tier, with_p=True, with_big=True, with_hist=True)


def order_obs(case, lat):
    return [(case.opos(c.extent), c.index, c.dindex) for c in lat]


def check_case(case, ctr):
    import concepts
    V = []
    ref, ctx = case.ref, case.ctx
    lat = case.lat
    members = list(lat)

    def bad(clause, exp, got, **kw):
        V.append(common.violation(ID, clause, case.ident(**kw), exp, got,
                                  repro=case.py_ctx() + 'print([(x.extent, x.index, x.dindex) '
                                  'for x in c.lattice])\n'))

    exp_order = [tuple(sorted(e)) for e, _ in ref.concepts]
    got_order = [tuple(sorted(case.opos(c.extent))) for c in members]
    ctr['calls'] += len(members)
    if got_order != exp_order:
        bad('iteration-shortlex', exp_order, got_order)
        return V
    dref = ref.dindex()
    for k, c in enumerate(members):
        if c.index != k:
            bad('index', k, c.index, concept=k)
        if c.dindex != dref[k]:
            bad('dindex', dref[k], c.dindex, concept=k)
    if lat.infimum is not members[0] or ref.bottom != 0:
        bad('infimum-first-least', 0, repr(lat.infimum))
    if lat.supremum is not members[-1] or ref.top != len(members) - 1:
        bad('supremum-last-greatest', len(members) - 1, repr(lat.supremum))
    posof = {id(c): k for k, c in enumerate(members)}
    atoms = [posof.get(id(a)) for a in lat.atoms]
    if set(atoms) != set(ref.upper_covers(ref.bottom)) or len(atoms) != len(set(atoms)):
        bad('atoms', sorted(ref.upper_covers(ref.bottom)), atoms)
    mixed = False
    for k, c in enumerate(members):
        up = [exp_order[posof[id(x)]] for x in c.upper_neighbors if id(x) in posof]
        lo = [exp_order[posof[id(x)]] for x in c.lower_neighbors if id(x) in posof]
        if up != sorted(up, key=shortlex_key):
            bad('upper-neighbors-shortlex', sorted(up, key=shortlex_key), up, concept=k)
        if lo != sorted(lo, key=longlex_key):
            bad('lower-neighbors-longlex', sorted(lo, key=longlex_key), lo, concept=k)
        if len({len(x) for x in up}) > 1 or len({len(x) for x in lo}) > 1:
            mixed = True
    if mixed:
        ctr['hit_mixed_size_neighbors'] += 1
    # shortlex and "reverse of longlex" differ
    if [k for k in sorted(range(len(members)), key=lambda k: dref[k])] != \
            list(reversed(range(len(members)))):
        ctr['hit_dindex_not_reverse_index'] += 1
    # stored-order loaders
    base = order_obs(case, lat)
    d = ctx.todict()
    again = concepts.Context.fromdict(copy.deepcopy(d))
    ctr['calls'] += 1
    if order_obs(case, again.lattice) != base:
        bad('fromdict-order', base, order_obs(case, again.lattice))
    perm = permuted_dict(d)
    raw = concepts.Context.fromdict(perm, raw=True)
    ctr['calls'] += 1
    if order_obs(case, raw.lattice) != base:
        bad('fromdict-raw-order', base, order_obs(case, raw.lattice))
    half = {'objects': d['objects'], 'properties': d['properties'], 'context': d['context'],
            'lattice': [(e, i, tuple(reversed(up)), tuple(reversed(lo)))
                        for e, i, up, lo in d['lattice']]}
    raw2 = concepts.Context.fromdict(half, raw=True)
    ctr['calls'] += 1
    nb = lambda lt: [([u.index for u in c.upper_neighbors], [l.index for l in c.lower_neighbors],
                      [a.index for a in c.atoms]) for c in lt]     # noqa: E731
    if order_obs(case, raw2.lattice) != base or nb(raw2.lattice) != nb(lat):
        bad('fromdict-raw-neighbour-order', nb(lat), nb(raw2.lattice))
    if nb(raw.lattice) != nb(lat):
        bad('fromdict-raw-neighbour-order', nb(lat), nb(raw.lattice))
    for i in range(len(d['lattice']) - 1):
        if len(d['lattice'][i][0]) == len(d['lattice'][i + 1][0]):
            sw = list(range(len(d['lattice'])))
            sw[i], sw[i + 1] = sw[i + 1], sw[i]
            inv = {old: new for new, old in enumerate(sw)}
            swapped = {'objects': d['objects'], 'properties': d['properties'], 'context': d['context'],
                       'lattice': [(d['lattice'][o][0], d['lattice'][o][1],
                                    tuple(inv[x] for x in d['lattice'][o][2]),
                                    tuple(inv[x] for x in d['lattice'][o][3])) for o in sw]}
            raw3 = concepts.Context.fromdict(swapped, raw=True)
            ctr['calls'] += 1
            if order_obs(case, raw3.lattice) != base or nb(raw3.lattice) != nb(lat):
                bad('fromdict-raw-same-size-swap', base, order_obs(case, raw3.lattice), swapped=[i, i + 1])
            break
    rl = raw.lattice
    if rl.infimum is not list(rl)[0] or rl.supremum is not list(rl)[-1] or \
            case.opos(rl.supremum.extent) != tuple(range(case.n)):
        bad('fromdict-raw-bounds', None, None)
    return V


def permuted_dict(d):
    """Reverse the stored lattice list (indexes remapped) and every neighbour list."""
    lat = d['lattice']
    k = len(lat)
    remap = lambda i: k - 1 - i  # noqa: E731
    new = []
    for ex, in_, up, lo in reversed(lat):
        new.append((tuple(reversed(ex)), tuple(reversed(in_)),
                    tuple(remap(i) for i in reversed(up)),
                    tuple(remap(i) for i in reversed(lo))))
    return {'objects': d['objects'], 'properties': d['properties'],
            'context': [tuple(reversed(r)) for r in d['context']], 'lattice': new}


def run_shard(shard, tier):
    return e1.run_shard_generic(shard, tier, ID, check_case, variants=('pickle', 'fromdict-raw', 'used'))


def main(tier):
    return e1.main_e1(__import__(__name__, fromlist=['x']), tier)


def replay(v):
    return e1.replay_e1(__import__(__name__, fromlist=['x']), v)
