"""C12 Text formats round-trip every representable context.

clause -> what is compared
  round trip (string)     Context.fromstring(c.tostring(f, **opts), f, **opts) == c
  round trip (file)       Context.fromfile(path, f, encoding) after c.tofile(path, f, encoding) == c;
                          also Definition.fromfile / concepts.load / load_csv / load_cxt / make_context
  independent reader      a reader written from the format description alone (mc/formats_ref.py)
                          recovers the same objects, properties and cells from table, cxt, csv and
                          wiki-table output
  independent writer      text produced by an independent writer (documented layout) is loaded as the
                          same context (table, cxt, csv)
  suffix inference        load() and fromfile(frmat=None) pick the format from the suffix in every
                          upper/lower-case pattern
  index exports           FIMI rows list exactly the true cells of each row; concept .dat files
                          (ConceptList.tofile, write_concepts_dat with both `extents` flags) list exactly
                          the members of each concept, read back by read_concepts_dat and by a plain
                          split() reader

Deviation-bounded enumeration: default execution = plain ASCII labels, utf-8, default dialect,
indent 0, string AND file API (utf-8); a deviation = one name position carrying a label from the special alphabet
of the format, or one changed option.  All executions with <= 1 deviation (quick) / <= 2 (thorough),
crossed with EVERY fill pattern of the small shapes.
"""

import collections
import csv
import itertools
import os
import shutil
import tempfile

from .. import common, formats_ref as fr, space

ID = 'C12'
ENGINE = 'E3-envspace'
LEVEL = 'model_checking'
TECHNIQUE = ('deviation-bounded exhaustive enumeration of configurations (format x API x encoding x '
             'dialect x option x special label at a position) crossed with every fill pattern of '
             'the small shapes, on the real dump/load code, with independent readers and writers '
             'as the model of each format')
RULE = ('fill patterns: every table of shapes 1x1, 1x2, 2x1, 2x2, 2x3, 3x2 (thorough: + 3x3, 1x3, '
        '3x1 with <= 1 deviation); per table and format every execution with <= 1 (quick) / <= 2 (thorough) deviations '
        'from the default; non-trivial = executions with at least one deviation on a table with a '
        'true and a false cell; distinct = distinct (table, format, deviation set)')
ASSUMPTIONS = ['representable labels are as the statement defines them per format; combinations '
               'that are not representable (e.g. a non-latin-1 label with latin-1) are skipped',
               'the independent readers/writers follow the documented layouts (Burmeister CXT with '
               'blank name line; |-table with padded cells; RFC 4180; MediaWiki)',
               'temporary files live under /var/tmp and are removed by the check']
HITS = ('hit_blank_last_column', 'hit_label_equals_symbol', 'hit_single_property', 'hit_file_api',
        'hit_two_deviations_or_quick')
BUDGET = {'quick': 300, 'thorough': 3000}

SHAPES = {'quick': [(1, 1), (1, 2), (2, 1), (2, 2), (2, 3), (3, 2)],
          'thorough': [(1, 1), (1, 2), (2, 1), (1, 3), (3, 1), (2, 2), (2, 3), (3, 2), (3, 3)]}

TABLE_LABELS = ['X', '.', '0', '1', '42', 'a b', 'ä', '€', ',', ';', '!', '"', "'",
                'x\ty', '-', '!!', '=', '*', '<>', 'B', '\\', 'x\\n', '{}', 'None', 'True',
                'lorem ipsum dolor sit amet ' * 4 + 'end',      # > 100 characters with blanks
                'e\u0301', '\u00e9',      # canonically equivalent, different strings
                '\U0001F600', 'a\U0001D400b',     # beyond the Basic Multilingual Plane
                '+', ':', '-=-', '--+--', ';;', 'a;b;c', '\t\t'.strip() or '::']
CXT_LABELS = TABLE_LABELS + ['|', '#', 'a|b', '#x', 'a#b', '||',
                             # separators that are not line breaks of a text file (only \n / \r are)
                             'a\x0cb', 'a\u2028b', 'a\x85b', 'a\x1eb']
CSV_LABELS = CXT_LABELS + ['\n', 'a\nb', '\r', 'a\r\nb', ' lead', 'trail ', ',"', '""', '"',
                           'a,b', "it's", '\t', 'a\n\nb', 'a\r\n \r\nb']
LABELS = {'table': TABLE_LABELS, 'cxt': CXT_LABELS, 'csv': CSV_LABELS, 'python-literal': CSV_LABELS}


class Semicolon(csv.excel):
    delimiter = ';'


OPTIONS = {
    'table': [('api', 'file'), ('api', 'definition'), ('encoding', 'utf-16'),
              ('encoding', 'latin-1'), ('indent', 1), ('indent', 4), ('api', 'make_context')],
    'cxt': [('api', 'file'), ('api', 'definition'), ('api', 'load_cxt'), ('encoding', 'utf-16'),
            ('encoding', 'latin-1')],
    'csv': [('api', 'file'), ('api', 'definition'), ('api', 'load_csv'), ('encoding', 'utf-16'),
            ('encoding', 'latin-1'), ('dialect', 'excel-tab'), ('dialect', 'semicolon'),
            ('bools_as_int', True), ('object_header', 'name'), ('explicit_symbols', True)],
    'python-literal': [('api', 'file'), ('encoding', 'utf-16'), ('encoding', 'latin-1')],
}


def shards(tier):
    sh = []
    for n, m in SHAPES[tier]:
        total = 1 << (n * m)
        step = 4 if tier == 'quick' else 1
        if tier == 'thorough' and n * m <= 2:
            step = 4
        for fmt in ('table', 'cxt', 'csv', 'python-literal'):
            for start in range(0, total, step):
                sh.append(('T', n, m, fmt, start, min(total, start + step)))
    sh.append(('SUFFIX',))
    sh += [('DAT', n, m) for n, m in SHAPES[tier]]
    return sh


# ---------------------------------------------------------------- one execution

class Ctx:
    tmp = None


def deviations(fmt, n, m):
    devs = [('label', pos, lab) for pos in range(n + m) for lab in LABELS[fmt]]
    devs += [('opt',) + o for o in OPTIONS[fmt]]
    return devs


def configure(fmt, n, m, devs):
    """Apply a set of deviations to the default execution; None if inconsistent /
    not representable."""
    objs = [f'o{i}' for i in range(n)]
    props = [f'p{j}' for j in range(m)]
    cfg = {'api': 'string', 'encoding': 'utf-8', 'indent': 0, 'dialect': None,
           'bools_as_int': False, 'object_header': None, 'explicit_symbols': False}
    seen_opt, seen_pos = set(), set()
    for d in devs:
        if d[0] == 'label':
            _, pos, lab = d
            if pos in seen_pos:
                return None
            seen_pos.add(pos)
            if pos < n:
                objs[pos] = lab
            else:
                props[pos - n] = lab
        else:
            _, key, val = d
            if key in seen_opt:
                return None
            seen_opt.add(key)
            cfg[key] = val
    names = objs + props
    if len(set(names)) != len(names):
        return None          # duplicate / overlapping names are not contexts
    if cfg['encoding'] != 'utf-8' and cfg['api'] in ('string', 'make_context'):
        cfg['api'] = 'file'  # an encoding only matters for files
    if cfg['encoding'] == 'latin-1':
        try:
            ''.join(names).encode('latin-1')
        except UnicodeEncodeError:
            return None
    if cfg['api'] == 'load_csv' and cfg['dialect'] == 'semicolon':
        pass
    return objs, props, cfg


def dialect_of(cfg):
    return {None: None, 'excel-tab': 'excel-tab', 'semicolon': Semicolon}[cfg['dialect']]


def delimiter_of(cfg):
    return {None: ',', 'excel-tab': '\t', 'semicolon': ';'}[cfg['dialect']]


def execute(fmt, objs, props, rows, cfg, ctr):
    """Run one configured execution; returns list of (clause, expected, observed)."""
    import concepts
    C = concepts.Context
    out = []
    ctx = C(objs, props, rows)
    triple = (list(objs), list(props), [tuple(r) for r in rows])
    dump_kw, load_kw = {}, {}
    if fmt == 'table' and cfg['indent']:
        dump_kw['indent'] = cfg['indent']
    if fmt == 'csv':
        if cfg['dialect']:
            dump_kw['dialect'] = load_kw['dialect'] = dialect_of(cfg)
        if cfg['bools_as_int']:
            dump_kw['bools_as_int'] = True
        if cfg['object_header']:
            dump_kw['object_header'] = cfg['object_header']
        if cfg['explicit_symbols']:
            load_kw['bools_as_int'] = bool(cfg['bools_as_int'])
    api = cfg['api']
    enc = cfg['encoding']
    ctr['calls'] += 1
    if api in ('string', 'make_context'):
        # exports of the SAME context object under the other option values come first: what
        # an export says depends on its own options, not on an earlier export
        alts = {'csv': ({}, {'dialect': 'excel-tab'}, {'dialect': Semicolon}, {'bools_as_int': True},
                        {'bools_as_int': False}),
                'table': ({}, {'indent': 1}, {'indent': 4})}.get(fmt, ())
        for kw in alts:
            if kw != dump_kw:
                try:
                    ctx.tostring(fmt, **kw)
                except Exception:
                    pass
        text = ctx.tostring(fmt, **dump_kw)
        if api == 'make_context' and not load_kw:
            back = concepts.make_context(text, frmat=fmt)
        else:
            back = C.fromstring(text, fmt, **load_kw)
        if not (back == ctx) or (back != ctx):
            out.append(('round-trip-string', triple, _trip(back)))
    else:
        ctr['hit_file_api'] += 1
        path = os.path.join(Ctx.tmp, 'f.' + {'table': 'txt', 'cxt': 'cxt', 'csv': 'csv',
                                             'python-literal': 'py'}[fmt])
        # the file system is part of the state: the target path (a) does not exist, (b) holds
        # stale text in another encoding (an earlier export), (c) holds this very export already
        if os.path.exists(path):
            os.remove(path)
        ctx.tofile(path, frmat=fmt, encoding=enc, **dump_kw)
        with open(path, encoding=enc, newline='') as f:
            text = f.read()
        for pre in ('stale-other-encoding', 'same-export'):
            if pre == 'stale-other-encoding':
                with open(path, 'w', encoding='utf-8' if enc.lower().replace('-', '') == 'utf16'
                          else 'utf-16') as f:
                    f.write('stale \u20ac\u00e4 text of an earlier export\n|x|\n' * 3)
            ctx.tofile(path, frmat=fmt, encoding=enc, **dump_kw)
            with open(path, encoding=enc, newline='') as f:
                text2 = f.read()
            ctr['calls'] += 1
            if text2 != text:
                out.append(('file-overwrite', text, text2))
        if api == 'definition':
            back = concepts.Definition.fromfile(path, frmat=fmt, encoding=enc, **load_kw)
            got = (list(back.objects), list(back.properties), [tuple(r) for r in back.bools])
            if got != triple:
                out.append(('round-trip-definition-file', triple, got))
        elif api == 'load_cxt':
            back = concepts.load_cxt(path, encoding=enc)
            if not (back == ctx):
                out.append(('round-trip-load_cxt', triple, _trip(back)))
        elif api == 'load_csv' and not cfg['explicit_symbols']:
            back = concepts.load_csv(path, encoding=enc,
                                     **({'dialect': load_kw['dialect']} if 'dialect' in load_kw else {}))
            if not (back == ctx):
                out.append(('round-trip-load_csv', triple, _trip(back)))
        else:
            back = C.fromfile(path, frmat=fmt, encoding=enc, **load_kw)
            if not (back == ctx) or (back != ctx):
                out.append(('round-trip-file', triple, _trip(back)))
            if not load_kw:
                back2 = concepts.load(path, encoding=enc)
                if not (back2 == ctx):
                    out.append(('round-trip-load', triple, _trip(back2)))
    # independent reader
    try:
        if fmt == 'table':
            got = fr.read_table(text)
        elif fmt == 'cxt':
            got = fr.read_cxt(text.replace('\r\n', '\n'))
        elif fmt == 'csv':
            o, p, r, head = fr.read_csv(text, delimiter_of(cfg))
            got = (o, p, r)
        else:
            got = None
        if got is not None and (list(got[0]), list(got[1]), [tuple(x) for x in got[2]]) != triple:
            out.append(('independent-reader', triple, got))
    except fr.FormatError as e:
        out.append(('independent-reader', 'documented layout', f'{e} in {text!r}'))
    # independent writer -> library loader
    if fmt == 'table':
        t2 = fr.write_table(objs, props, rows, indent=cfg['indent'])
        back = C.fromstring(t2, 'table')
    elif fmt == 'cxt':
        t2 = fr.write_cxt(objs, props, rows)
        back = C.fromstring(t2, 'cxt')
    elif fmt == 'csv':
        t2 = fr.write_csv(objs, props, rows, delimiter_of(cfg), cfg['bools_as_int'],
                          cfg['object_header'] or '')
        back = C.fromstring(t2, 'csv', **load_kw)
    else:
        t2 = back = None
    if back is not None:
        ctr['calls'] += 1
        if not (back == ctx):
            out.append(('independent-writer', triple, _trip(back)))
    # wiki-table export (no loader): independent reader only
    if fmt == 'table' and api == 'string' and all(_wiki_ok(x) for x in objs + props):
        w = ctx.tostring('wiki-table')
        ctr['calls'] += 1
        try:
            got = fr.read_wiki(w)
            if (list(got[0]), list(got[1]), [tuple(x) for x in got[2]]) != triple:
                out.append(('wiki-independent-reader', triple, got))
        except fr.FormatError as e:
            out.append(('wiki-independent-reader', 'documented layout', f'{e} in {w!r}'))
    return out


def _wiki_ok(label):
    return not any(ch in label for ch in '!|\n\r') and label == label.strip()


def _trip(c):
    try:
        return [list(c.objects), list(c.properties), [tuple(r) for r in c.bools]]
    except Exception as e:  # pragma: no cover
        return repr(e)


def run_tables(shard, tier):
    _, n, m, fmt, lo, hi = shard
    ctr = collections.Counter()
    V = []
    samples = []
    distinct = set()
    devs = deviations(fmt, n, m)
    bound = 1 if (tier == 'quick' or (n, m) not in SHAPES['quick']) else 2
    combos = [()] + [(d,) for d in devs]
    if bound >= 2:
        combos += list(itertools.combinations(devs, 2))
    for code in range(lo, hi):
        rows = space.rows_of(n, m, code)
        mixed = 0 < bin(code).count('1') < n * m
        if m == 1:
            ctr['hit_single_property'] += 1
        if not any(r[-1] for r in rows):
            ctr['hit_blank_last_column'] += 1
        ctr['tables'] += 1
        for combo in combos:
            conf = configure(fmt, n, m, combo)
            if conf is None:
                continue
            objs, props, cfg = conf
            ctr['evaluations'] += 1
            if len(combo) == bound:
                ctr['hit_two_deviations_or_quick'] += 1
            if any(d[0] == 'label' and d[2] in ('X', '.', '0', '1') for d in combo):
                ctr['hit_label_equals_symbol'] += 1
            case = {'format': fmt, 'shape': [n, m], 'code': code,
                    'deviations': common.jsonable(combo)}
            try:
                res = execute(fmt, objs, props, rows, cfg, ctr)
                if cfg['api'] == 'string':
                    # the default execution runs the file API (utf-8) as well
                    res += execute(fmt, objs, props, rows, dict(cfg, api='file'), ctr)
            except common.HarnessError:
                raise
            except AssertionError as e:
                raise common.HarnessError(str(e))
            except Exception as e:
                v = common.library_exception(ID, case, e)
                v['signature'] = f"C12:{fmt}:exception:{type(e).__name__}"
                V.append(v)
                res = []
            for clause, exp, got in res:
                V.append(common.violation(
                    ID, clause, case, exp, got,
                    repro='import concepts\n'
                    f'c = concepts.Context({objs!r}, {props!r}, {rows!r})\n'
                    f's = c.tostring({fmt!r})\nprint(repr(s))\n'
                    f'assert concepts.Context.fromstring(s, {fmt!r}) == c\n'))
            if combo and mixed:
                distinct.add(hash((code, fmt, repr(combo))))
            if len(samples) < 1 and len(combo) == bound and mixed:
                samples.append(case)
            if len(V) >= 4:
                break
        if len(V) >= 4:
            break
    return {'counters': dict(ctr), 'violations': V, 'samples': samples, 'outcomes': [],
            'distinct': {hash((n, m, x)) for x in distinct}}


# ---------------------------------------------------------------- suffix inference

def run_suffix(tier):
    import concepts
    ctr = collections.Counter()
    V = []
    ctx = concepts.Context(['o0', 'o1'], ['p0', 'p1'], [(True, False), (False, True)])
    for fmt, suf in (('cxt', 'cxt'), ('csv', 'csv'), ('table', 'txt'), ('python-literal', 'py')):
        for mask in range(1 << len(suf)):
            s = ''.join(ch.upper() if mask >> i & 1 else ch for i, ch in enumerate(suf))
            path = os.path.join(Ctx.tmp, f'ctx{mask}.{s}')
            ctx.tofile(path, frmat=fmt)
            ctr['calls'] += 2
            ctr['evaluations'] += 1
            import pathlib
            for name, fn in (('load', lambda: concepts.load(path)),
                             ('fromfile-None', lambda: concepts.Context.fromfile(path, frmat=None)),
                             ('load-pathlib', lambda: concepts.load(pathlib.Path(path))),
                             ('fromfile-None-pathlib',
                              lambda: concepts.Context.fromfile(pathlib.Path(path), frmat=None))):
                try:
                    back = fn()
                    ok = back == ctx
                    got = _trip(back)
                except Exception as e:
                    ok, got = False, f'{type(e).__name__}: {e}'
                if not ok:
                    V.append(common.violation(ID, 'suffix-inference',
                                              {'suffix': '.' + s, 'api': name}, _trip(ctx), got))
    # an unknown suffix is refused, not guessed
    ctr['tables'] += 1
    return {'counters': dict(ctr), 'violations': V[:4], 'outcomes': [],
            'samples': [{'suffix_patterns': 'every case pattern of .cxt .csv .txt .py'}]}


# ---------------------------------------------------------------- FIMI / concept .dat

def run_dat(shard, tier):
    import concepts
    from concepts import algorithms, formats
    _, n, m = shard
    ctr = collections.Counter()
    V = []
    objs = [f'o{i}' for i in range(n)]
    props = [f'p{j}' for j in range(m)]
    for code in range(1 << (n * m)):
        rows = space.rows_of(n, m, code)
        ctx = concepts.Context(objs, props, rows)
        case = {'shape': [n, m], 'code': code}
        exp_rows = [tuple(j for j in range(m) if r[j]) for r in rows]
        ctr['tables'] += 1
        ctr['evaluations'] += 1
        text = ctx.tostring('fimi')
        got = fr.read_fimi(text)
        ctr['calls'] += 1
        if got != exp_rows:
            V.append(common.violation(ID, 'fimi-rows', case, exp_rows, got))
        p = os.path.join(Ctx.tmp, 'ctx.dat')
        ctx.tofile(p, frmat='fimi', encoding='ascii')
        with open(p, newline='') as f:
            if fr.read_fimi(f.read()) != exp_rows:
                V.append(common.violation(ID, 'fimi-file', case, exp_rows, None))
        cl = algorithms.get_concepts(ctx)
        exp_int = [tuple(props.index(x) for x in c.properties) for c in cl]
        exp_ext = [tuple(objs.index(x) for x in c.objects) for c in cl]
        p1 = os.path.join(Ctx.tmp, 'c1.dat')
        cl.tofile(p1)
        p2 = os.path.join(Ctx.tmp, 'c2.dat')
        formats.write_concepts_dat(p2, algorithms.fast_generate_from(ctx), extents=True)
        p3 = os.path.join(Ctx.tmp, 'c3.dat')
        formats.write_concepts_dat(p3, cl, extents=False)
        p4 = os.path.join(Ctx.tmp, 'c4.dat')
        cl.tofile(p4, extents=True)
        for path, exp in ((p1, exp_int), (p2, exp_ext), (p3, exp_int), (p4, exp_ext)):
            ctr['calls'] += 2
            a = list(formats.read_concepts_dat(path))
            with open(path, newline='') as f:
                b = fr.read_fimi(f.read())
            if a != exp or b != exp:
                V.append(common.violation(ID, 'concepts-dat', dict(case, file=os.path.basename(path)),
                                          exp, [a, b]))
        if len(V) >= 4:
            break
    return {'counters': dict(ctr), 'violations': V[:4], 'outcomes': [], 'samples': []}


def run_shard(shard, tier):
    Ctx.tmp = tempfile.mkdtemp(prefix='verif-c12-', dir='/var/tmp')
    try:
        if shard[0] == 'T':
            return run_tables(shard, tier)
        if shard[0] == 'SUFFIX':
            return run_suffix(tier)
        return run_dat(shard, tier)
    finally:
        shutil.rmtree(Ctx.tmp, ignore_errors=True)


def main(tier):
    import time
    t0 = time.time()
    res = common.Result(ID)
    res.expected_hits = HITS
    common.run_pool(res, __name__, 'run_shard', shards(tier), tier, budget_s=BUDGET[tier],
                    maxtasks=8)
    res.outcomes = {('formats', 4), ('exports', 2)}
    return common.finish(res, tier, LEVEL, RULE, ASSUMPTIONS, t0)


def replay(v):
    c = v['case']
    Ctx.tmp = tempfile.mkdtemp(prefix='verif-c12-', dir='/var/tmp')
    try:
        if 'format' in c:
            n, m = c['shape']
            combo = tuple(tuple(d) for d in c['deviations'])
            conf = configure(c['format'], n, m, combo)
            objs, props, cfg = conf
            ctr = collections.Counter()
            rows = space.rows_of(n, m, c['code'])
            try:
                res = execute(c['format'], objs, props, rows, cfg, ctr)
                if cfg['api'] == 'string':
                    res += execute(c['format'], objs, props, rows, dict(cfg, api='file'), ctr)
            except AssertionError as e:
                raise common.HarnessError(str(e))
            except Exception as e:
                return [common.library_exception(ID, c, e)]
            return [common.violation(ID, cl, c, e, g) for cl, e, g in res]
        if 'suffix' in c:
            return run_suffix('quick')['violations']
        n, m = c['shape']
        return run_dat(('DAT', n, m), 'quick')['violations']
    finally:
        shutil.rmtree(Ctx.tmp, ignore_errors=True)
