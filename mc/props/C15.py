"""C15 Lattice structure is invariant under relabelling, duplication and transposition.

Differential oracle (no reference model): observations of two *real* contexts are compared.

clause -> what is compared
  row/column permutation   for every table c of the stratum and every adjacent transposition t of
                           rows or of columns (labels moving with them): label-level concept set
                           (from lattice, fast_generate_from and fcbo_dual), cover set, join and
                           meet tables and relations() (symmetric kinds as unordered pairs) of t.c
                           equal those of c.  Adjacent transpositions generate the symmetric
                           groups and the stratum is closed under them, so invariance under every
                           permutation follows by composition; all n!*m! <= 720 permutations are
                           additionally run directly.
  transposition            Context(*definition.transposed()): concept set with extent/intent
                           swapped, covers reversed, join <-> meet
  duplication              copy of every row at every insertion position: family of intents and
                           number of concepts unchanged; copy of every column / a full column at
                           every position: family of extents and number of concepts unchanged
"""

import itertools
import math

from .. import common, e1, space

ID = 'C15'
LEVEL = 'model_checking'
RULE = ('tables: S(12)/S(14) ∪ G for the permutation generators and transposition, S(9)/S(12) for the '
        'duplication family (every row/column choice x every insertion position) ∪ F(5,1); '
        'non-trivial = lattice has > 2 concepts and is not a chain; distinct = distinct table')
ASSUMPTIONS = ['differential: the untransformed context is the oracle for the transformed one '
               '(C03-C08 decide that either is right in absolute terms)',
               'symmetric relation kinds (equivalent, complement, incompatible, subcontrary, '
               'orthogonal) are compared as unordered pairs, implication as ordered']
HITS = ('hit_perm_changes_table', 'hit_dup_row', 'hit_full_column')
BUDGET = {'quick': 300, 'thorough': 5400}

SYMMETRIC = {'equivalent', 'complement', 'incompatible', 'subcontrary', 'orthogonal'}


def shards(tier):
    # thorough: S(14) (the all-generators check on S(16) did not finish within the budget)
    return e1.std_shards(tier, f_quick=(5, 1), thorough_bound=14)


def observe(objs, props, rows, ctx=None):
    """Label-level observation of a real context."""
    import concepts
    from concepts import algorithms
    c = ctx if ctx is not None else concepts.Context(objs, props, rows)
    lat = c.lattice
    members = list(lat)
    cs = frozenset((frozenset(x.extent), frozenset(x.intent)) for x in members)
    g1 = frozenset((frozenset(e.members()), frozenset(i.members()))
                   for e, i in algorithms.fast_generate_from(c))
    g2 = frozenset((frozenset(e.members()), frozenset(i.members()))
                   for e, i in algorithms.fcbo_dual(c))
    covers = frozenset((frozenset(x.extent), frozenset(u.extent))
                       for x in members for u in x.upper_neighbors)
    covers_down = frozenset((frozenset(l.extent), frozenset(x.extent))
                            for x in members for l in x.lower_neighbors)
    join = frozenset((frozenset(x.extent), frozenset(y.extent), frozenset((x | y).extent))
                     for x in members for y in members)
    meet = frozenset((frozenset(x.extent), frozenset(y.extent), frozenset((x & y).extent))
                     for x in members for y in members)
    rels = frozenset(
        (r.kind, frozenset((r.left, r.right))) if r.kind in SYMMETRIC else (r.kind, r.left, r.right)
        for r in c.relations())
    return {'concepts': cs, 'fcbo': g1, 'fcbo_dual': g2, 'covers': covers,
            'covers_down': covers_down, 'join': join, 'meet': meet, 'relations': rels,
            'n': len(members), 'len_multiset': (len(members), len(list(algorithms.fast_generate_from(c))),
                                                len(list(algorithms.fcbo_dual(c))))}


def permuted(objs, props, rows, rp, cp):
    """Rows in order rp, columns in order cp, labels moving with them."""
    return ([objs[i] for i in rp], [props[j] for j in cp],
            [tuple(rows[i][j] for j in cp) for i in rp])


def check_case(case, ctr):
    import concepts
    V = []
    n, m, rows = case.n, case.m, case.rows
    objs, props = list(case.objs), list(case.props)
    if n * m <= 9:
        # the transformed contexts exist (created, not yet used) before the original is used:
        # they share its object tuple or its property tuple
        c0 = concepts.Context(objs, props, rows)
        live = [concepts.Context(objs[::-1], props, rows[::-1]),
                concepts.Context(objs, props[::-1], [tuple(r[::-1]) for r in rows]),
                concepts.Context(objs + ['dup'], props, rows + [rows[0]]),
                concepts.Context(objs, props + ['dup'], [tuple(r) + (r[0],) for r in rows]),
                concepts.Context(props, objs, [tuple(rows[i][j] for i in range(n)) for j in range(m)])]
        case.keep.append(live)
        ctr['hit_transformed_created_first'] += 1
        base = observe(objs, props, rows, ctx=c0)
        again = observe(objs, props, rows)
        for key in base:
            if base[key] != again[key]:
                V.append(common.violation(
                    ID, 'original-after-creating-transformed-contexts',
                    case.ident(observation=key), common.jsonable(_fmt(again[key])),
                    common.jsonable(_fmt(base[key]))))
                return V
    else:
        base = observe(objs, props, rows)
    ctr['calls'] += 1

    def bad(clause, key, exp, got, **kw):
        V.append(common.violation(ID, clause, case.ident(observation=key, **kw),
                                  common.jsonable(exp), common.jsonable(got)))

    def compare(obs, clause, **kw):
        for key in ('concepts', 'fcbo', 'fcbo_dual', 'covers', 'covers_down', 'join', 'meet',
                    'relations', 'len_multiset'):
            if obs[key] != base[key]:
                bad(clause, key, _fmt(base[key]), _fmt(obs[key]), **kw)
                return False
        return True

    exts = {e for e, _ in base['concepts']}
    if base['fcbo'] != base['concepts'] or base['fcbo_dual'] != base['concepts'] \
            or base['covers'] != base['covers_down'] \
            or any(z not in exts for _, _, z in base['join'] | base['meet']) \
            or any(x not in exts for pair in base['covers'] for x in pair):
        bad('self-consistency', 'generators/covers', None, None)
        return V
    idr, idc = list(range(n)), list(range(m))
    perms = []
    for i in range(n - 1):
        rp = idr[:]
        rp[i], rp[i + 1] = rp[i + 1], rp[i]
        perms.append((rp, idc, f'rows {i}<->{i + 1}'))
    for j in range(m - 1):
        cp = idc[:]
        cp[j], cp[j + 1] = cp[j + 1], cp[j]
        perms.append((idr, cp, f'columns {j}<->{j + 1}'))
    if n * m > 30:
        # bigger structured tables: first, middle and last generator of each axis
        keep = {0, (n - 1) // 2, n - 2} if n > 1 else set()
        keepc = {0, (m - 1) // 2, m - 2} if m > 1 else set()
        perms = [p_ for p_ in perms
                 if (p_[2].startswith('rows') and int(p_[2].split()[1].split('<')[0]) in keep)
                 or (p_[2].startswith('columns') and int(p_[2].split()[1].split('<')[0]) in keepc)]
    if math.factorial(n) * math.factorial(m) <= ALLPERM_LIMIT[0]:
        for rp in itertools.permutations(idr):
            for cp in itertools.permutations(idc):
                perms.append((list(rp), list(cp), f'perm {rp} {cp}'))
    for rp, cp, desc in perms:
        o2, p2, r2 = permuted(objs, props, rows, rp, cp)
        if r2 != rows:
            ctr['hit_perm_changes_table'] += 1
        ctr['calls'] += 1
        if not compare(observe(o2, p2, r2), 'permutation', transform=desc):
            break
    # transposition
    d = case.ctx.definition().transposed()
    if list(d.objects) != props or list(d.properties) != objs:
        bad('transposed-definition', 'names', [props, objs], [d.objects, d.properties])
    else:
        t = observe(list(d.objects), list(d.properties), d.bools)
        ctr['calls'] += 1
        swap = frozenset((i, e) for e, i in base['concepts'])
        if t['concepts'] != swap or t['fcbo'] != swap or t['fcbo_dual'] != swap:
            bad('transposition', 'concepts', _fmt(swap), _fmt(t['concepts']))
        else:
            e2i = dict(base['concepts'])       # extent -> intent in the original
            rev = frozenset((e2i[u], e2i[l]) for l, u in base['covers'])
            if t['covers'] != rev:
                bad('transposition', 'covers', _fmt(rev), _fmt(t['covers']))
            jm = frozenset((e2i[x], e2i[y], e2i[z]) for x, y, z in base['join'])
            mj = frozenset((e2i[x], e2i[y], e2i[z]) for x, y, z in base['meet'])
            if t['meet'] != jm or t['join'] != mj:
                bad('transposition', 'join<->meet', None, None)
    # duplication family
    if n * m <= DUP_LIMIT[0]:
        intents = frozenset(i for _, i in base['concepts'])
        extents = frozenset(e for e, _ in base['concepts'])
        for i in range(n):
            for at in range(n + 1):
                o2 = objs[:at] + ['dup'] + objs[at:]
                r2 = rows[:at] + [rows[i]] + rows[at:]
                c2 = concepts.Context(o2, props, r2)
                got = frozenset(frozenset(x.intent) for x in c2.lattice)
                ctr['calls'] += 1
                ctr['hit_dup_row'] += 1
                if got != intents or len(c2.lattice) != base['n']:
                    bad('duplicate-row', 'intents', _fmt(intents), _fmt(got), row=i, at=at)
                    break
        for j in list(range(m)) + ['full']:
            for at in range(m + 1):
                p2 = props[:at] + ['dup'] + props[at:]
                col = [True] * n if j == 'full' else [rows[i][j] for i in range(n)]
                r2 = [rows[i][:at] + (col[i],) + rows[i][at:] for i in range(n)]
                c2 = concepts.Context(objs, p2, r2)
                got = frozenset(frozenset(x.extent) for x in c2.lattice)
                ctr['calls'] += 1
                if j == 'full':
                    ctr['hit_full_column'] += 1
                if got != extents or len(c2.lattice) != base['n']:
                    bad('duplicate-column' if j != 'full' else 'full-column', 'extents',
                        _fmt(extents), _fmt(got), column=j, at=at)
                    break
    return V


ALLPERM_LIMIT = [720]
DUP_LIMIT = [12]


def _fmt(x):
    if isinstance(x, frozenset):
        return sorted((_fmt(y) for y in x), key=repr)
    if isinstance(x, tuple):
        return [_fmt(y) for y in x]
    return x


def run_shard(shard, tier):
    ALLPERM_LIMIT[0] = 36 if tier == 'quick' else 720
    DUP_LIMIT[0] = 9 if tier == 'quick' else 12
    return e1.run_shard_generic(shard, tier, ID, check_case, both_labelings=False)


def main(tier):
    return e1.main_e1(__import__(__name__, fromlist=['x']), tier)


def replay(v):
    return e1.replay_e1(__import__(__name__, fromlist=['x']), v)
