"""C01 Derivation operators are exactly the Galois connection of the table.

clause -> what is compared
  intension(A) exact          tuple == labels of R1 A' in context (column) order, each once
  extension(B) exact          tuple == labels of R1 B' in context (row) order, each once
  empty collection            intension(()) == all properties, extension(()) == all objects
  duplicates / order          same result for the argument reversed, with every member doubled,
                              as list / tuple / generator
  raw form                    intension(A, raw=True).members() == intension(A)
  table faithfully stored     context.objects / properties / bools == the input

Argument space: every subset of an axis of <= 8 members; for longer axes every
singleton, pairs/triples over the word-boundary positions, every subset of the
embedded block (P stratum) alone and combined with padding members, complements
of singletons, full set; on the wide whole scales (W) every argument made of
<= 2 runs of consecutive members (<= 1 run in quick).
"""

import collections
import itertools

from .. import common, e1, space
from ..refmodel import Ref, powerset

ID = 'C01'
LEVEL = 'model_checking'
RULE = ('tables: S(12)/S(16) ∪ F ∪ P ∪ W as in C03; per table every argument subset per the '
        'axis-length rule in the module docstring, each in 2-4 argument forms; non-trivial = '
        'lattice has > 2 concepts and is not a chain; distinct = distinct table')
ASSUMPTIONS = ['R1 derivation is the definition (all()/any() over rows); on wide tables the '
               'equivalent intersection-of-row-sets form, cross-checked in the self test',
               'labels are opaque strings; two labelings explored on S and F']
HITS = ('hit_multi_arg', 'hit_sibling_schedule', 'hit_call_pairs', 'hit_str_argument')
BUDGET = {'quick': 240, 'thorough': 3000}

BOUNDARY = (0, 1, 2, 28, 29, 30, 31, 32, 58, 59, 60, 61, 62, 63, 64, 65, 66, 126, 127, 128, 129)


def shards(tier):
    if tier == 'quick':
        sh = e1.std_shards(tier, with_p=True, with_hist=True)
        sh += [('WA', kind, k, 1, 0, 1) for k in (31, 65) for kind in ('contranominal', 'ordinal')]
    else:
        sh = e1.std_shards(tier, with_p=True, with_hist=True)
        for k in space.W_SIZES:
            for kind in ('contranominal', 'nominal', 'ordinal'):
                if kind == 'contranominal':
                    nparts = 1 if k < 59 else (8 if k <= 70 else 64)
                    sh += [('WA', kind, k, 2, part, nparts) for part in range(nparts)]
                else:
                    sh.append(('WA', kind, k, 1, 0, 1))
    return sh


def arg_sets(length, block=()):
    """Argument position tuples for an axis of the given length."""
    if length <= 8:
        return list(powerset(range(length)))
    out = [()]
    out += [(i,) for i in range(length)]
    inter = sorted({p for p in BOUNDARY if p < length} | {length - 1, length - 2} | set(block))
    if length <= 20:
        inter = list(range(length))
    out += list(itertools.combinations(inter, 2))
    small = inter if len(inter) <= 8 else (inter[:3] + inter[-5:])
    out += list(itertools.combinations(small, 3))
    full = tuple(range(length))
    out.append(full)
    out += [tuple(x for x in full if x != i) for i in inter]
    if block:
        pad = tuple(x for x in full if x not in set(block))
        for sub in powerset(block):
            if len(sub) > 1:
                out.append(tuple(sub))
            if pad:
                out.append((pad[0],) + tuple(sub))
                out.append(pad + tuple(sub))
    seen, res = set(), []
    for a in out:
        if a not in seen:
            seen.add(a)
            res.append(a)
    return res


def forms(arg, small):
    """Argument forms: (name, sequence)."""
    a = list(arg)
    yield 'tuple', tuple(a)
    if len(a) > 0:
        yield 'rev-doubled-list', list(reversed(a)) * 2
        if small:
            yield 'reversed', tuple(reversed(a))
            yield 'each-doubled', [x for x in a for _ in (0, 1)]
            yield 'generator', (x for x in a)


def check_axis(case, ctr, V, which, length, block, wide):
    ref, ctx = case.ref, case.ctx
    if which == 'int':
        call, derive = ctx.intension, (ref.intent_of_sets if wide else ref.intent_of)
        inlab, outlab = case.objs, case.plab
    else:
        call, derive = ctx.extension, (ref.extent_of_sets if wide else ref.extent_of)
        inlab, outlab = case.props, case.olab
    small = length <= 6
    for arg in arg_sets(length, block):
        exp = outlab(derive(arg))
        for fname, seq in forms([inlab[i] for i in arg], small):
            got = call(seq)
            ctr['calls'] += 1
            if got != exp or type(got) is not tuple:
                V.append(common.violation(
                    ID, f'{"intension" if which == "int" else "extension"}-exact',
                    case.ident(arg=[inlab[i] for i in arg], form=fname), exp, got,
                    repro=case.py_ctx() + f'assert c.{"intension" if which == "int" else "extension"}'
                    f'({[inlab[i] for i in arg]!r}) == {exp!r}\n'))
                return
        raw = call([inlab[i] for i in arg], raw=True)
        ctr['calls'] += 1
        if len(arg) <= 1:
            rawp = call([inlab[i] for i in arg], True)    # documented second positional parameter
            ctr['calls'] += 1
            if not hasattr(rawp, 'members') or tuple(rawp.members()) != exp:
                V.append(common.violation(ID, 'raw-form', case.ident(arg=[inlab[i] for i in arg],
                                                                     form='positional raw'),
                                          exp, repr(rawp)))
                return
        if tuple(raw.members()) != exp:
            V.append(common.violation(ID, 'raw-form', case.ident(arg=[inlab[i] for i in arg]),
                                      exp, tuple(raw.members())))
            return
        if len(arg) > 1:
            ctr['hit_multi_arg'] += 1


def check_case(case, ctr):
    V = []
    ctx = case.ctx
    if tuple(ctx.objects) != case.objs or tuple(ctx.properties) != case.props:
        V.append(common.violation(ID, 'names-stored', case.ident(), [case.objs, case.props],
                                  [ctx.objects, ctx.properties]))
    if [tuple(r) for r in ctx.bools] != case.rows:
        V.append(common.violation(ID, 'bools-stored', case.ident(), None, None))
    got = ctx.bools
    if isinstance(got, list):          # what is handed out is the caller's to change
        got.reverse()
        got.append(())
        if [tuple(r) for r in ctx.bools] != case.rows:
            V.append(common.violation(ID, 'bools-stored', case.ident(when='after mutating the returned list'),
                                      case.rows, ctx.bools))
    wide = max(case.n, case.m) > 20
    oblock = pblock = ()
    if case.tag[0] == 'P':
        _, n, m, code, off, pad, axis = case.tag
        if axis in ('obj', 'both'):
            oblock = tuple(range(case.n - n, case.n))
        if axis in ('prop', 'both'):
            pblock = tuple(range(case.m - m, case.m))
    check_axis(case, ctr, V, 'int', case.n, oblock, wide)
    check_axis(case, ctr, V, 'ext', case.m, pblock, wide)
    if ctx.intension(()) != case.props or ctx.extension(()) != case.objs:
        V.append(common.violation(ID, 'empty-collection', case.ident(), None, None))
    # every ordered pair of consecutive calls on ONE context: the first an accepted or a rejected
    # call (a valid collection followed / preceded by an unknown label, or by a label of the
    # other axis), the second any collection; the answer to the second call is what is judged
    if case.labeling == space.ASC and case.variant == 'fresh' and case.n <= 3 and case.m <= 3 \
            and not V:
        ctr['hit_call_pairs'] += 1
        ref = case.ref
        qs = []
        for which, lab, other in (('int', case.objs, case.props), ('ext', case.props, case.objs)):
            for r in range(len(lab) + 1):
                for sub in itertools.combinations(range(len(lab)), r):
                    names = [lab[i] for i in sub]
                    qs.append((which, sub, names, True))
                    qs.append((which, sub, names + ['\x00unknown'], False))
                    qs.append((which, sub, ['\x00unknown'] + names, False))
                    qs.append((which, sub, names + [other[0]], False))
        for w1, _, names1, ok1 in qs:
            f1 = ctx.intension if w1 == 'int' else ctx.extension
            for w2, sub2, names2, ok2 in qs:
                if not ok2:
                    continue
                try:
                    f1(names1)
                    raised = False
                except KeyError:
                    raised = True
                if w2 == 'int':
                    got, exp = ctx.intension(names2), case.plab(ref.intent_of(sub2))
                else:
                    got, exp = ctx.extension(names2), case.olab(ref.extent_of(sub2))
                ctr['calls'] += 2
                if got != exp:
                    V.append(common.violation(
                        ID, 'derivation-after-previous-call',
                        case.ident(previous=[w1, names1, 'raised KeyError' if raised else 'returned'],
                                   call=[w2, names2]), exp, got))
                    break
            if V:
                break
    # interleaving with sibling contexts over the same labels but another table
    if case.labeling == space.ASC and case.n * case.m <= 16 and not V:
        older, a, newer, iref = e1.sibling_schedule(case)
        ctr['hit_sibling_schedule'] += 1
        for c, r, name in ((a, case.ref, 'case-context'), (older, iref, 'older-sibling')):
            for i in range(case.n):
                ctr['calls'] += 1
                if c.intension([case.objs[i]]) != case.plab(r.intent_of([i])):
                    V.append(common.violation(ID, 'derivation-with-sibling-contexts',
                                              case.ident(which=name, arg=[case.objs[i]]),
                                              case.plab(r.intent_of([i])),
                                              c.intension([case.objs[i]])))
                    break
            for j in range(case.m):
                ctr['calls'] += 1
                if c.extension([case.props[j]]) != case.olab(r.extent_of([j])):
                    V.append(common.violation(ID, 'derivation-with-sibling-contexts',
                                              case.ident(which=name, arg=[case.props[j]]),
                                              case.olab(r.extent_of([j])),
                                              c.extension([case.props[j]])))
                    break
        del older, a, newer
    return V


# ---------------------------------------------------------------- W: wide whole scales

def run_wa(shard, tier):
    _, kind, k, max_runs, part, nparts = shard
    rows = space.scale(kind, k)
    ctr = collections.Counter()
    V = []
    samples = []
    for labeling in (space.ASC,):
        case = e1.Case(rows, ('W', kind, k), labeling)
        ref, ctx = case.ref, case.ctx
        for idx, arg in enumerate(space.two_run_sets(k, max_runs)):
            if idx % nparts != part:
                continue
            labs = [case.objs[i] for i in arg]
            exp = case.plab(ref.intent_of_sets(arg))
            got = ctx.intension(labs)
            ctr['calls'] += 1
            if got != exp:
                V.append(common.violation(ID, 'intension-exact', case.ident(arg=labs), exp, got))
                break
            labs = [case.props[i] for i in arg]
            exp = case.olab(ref.extent_of_sets(arg))
            got = ctx.extension(labs)
            ctr['calls'] += 1
            if got != exp:
                V.append(common.violation(ID, 'extension-exact', case.ident(arg=labs), exp, got))
                break
            if idx == 1000 and not samples:
                samples.append(case.ident(arg=labs))
    ctr['evaluations'] += 1
    if part == 0:
        ctr['tables'] += 1
        ctr['wide_tables'] += 1
    return {'counters': dict(ctr), 'violations': V, 'samples': samples, 'outcomes': []}


def check_char_case(case, ctr):
    """One-character labels: a plain str is a collection of labels too."""
    V = []
    ref, ctx = case.ref, case.ctx
    for arg in powerset(range(case.n)):
        s = ''.join(case.objs[i] for i in reversed(arg))
        ctr['calls'] += 1
        exp = case.plab(ref.intent_of(arg))
        if ctx.intension(s) != exp or ctx.intension(s + s) != exp:
            V.append(common.violation(ID, 'intension-exact', case.ident(arg=s, form='str'), exp,
                                      ctx.intension(s)))
            break
    for arg in powerset(range(case.m)):
        s = ''.join(case.props[j] for j in reversed(arg))
        ctr['calls'] += 1
        exp = case.olab(ref.extent_of(arg))
        if ctx.extension(s) != exp:
            V.append(common.violation(ID, 'extension-exact', case.ident(arg=s, form='str'), exp,
                                      ctx.extension(s)))
            break
    return V


def run_shard(shard, tier):
    if shard[0] == 'WA':
        try:
            return run_wa(shard, tier)
        except (common.HarnessError,):
            raise
        except Exception as e:
            case = e1.Case(space.scale(shard[1], shard[2]), ('W', shard[1], shard[2]), space.ASC)
            return {'counters': {'evaluations': 1}, 'samples': [], 'outcomes': [],
                    'violations': [common.library_exception(ID, case.ident(), e)]}
    both = shard[0] != 'P'
    res = e1.run_shard_generic(shard, tier, ID, check_case, both_labelings=both,
                                variants=('truthy-cells', 'used'))
    if shard[0] == 'S' and shard[1] * shard[2] <= 9:
        ctr = collections.Counter()
        for n, m, rows, tag in space.tables_of_shard(shard):
            case = e1.Case(rows, tag, space.CHAR)
            try:
                vs = check_char_case(case, ctr)
            except Exception as e:
                vs = [common.library_exception(ID, case.ident(), e)]
            # labels are opaque: names that differ only in surrounding blanks are different names
            case = e1.Case(rows, tag, space.SPACE)
            try:
                vs += check_case(case, ctr)
            except Exception as e:
                vs += [common.library_exception(ID, case.ident(), e)]
            e1.track(case, vs, tier)
            ctr['evaluations'] += 2
            ctr['hit_str_argument'] += 1
            res['violations'].extend(vs[:2])
        for k_, v_ in ctr.items():
            res['counters'][k_] = res['counters'].get(k_, 0) + v_
    return res


def main(tier):
    return e1.main_e1(__import__(__name__, fromlist=['x']), tier)


def replay(v):
    c = v['case']
    if c.get('labeling') == space.CHAR:
        case = e1.case_from_ident(c)
        try:
            return check_char_case(case, collections.Counter())
        except Exception as e:
            return [common.library_exception(ID, c, e)]
    if 'arg' in c and v['clause'] in ('intension-exact', 'extension-exact', 'raw-form'):
        case = e1.case_from_ident(c)
        arg = c['arg']
        out = []
        try:
            if all(a in case.objs for a in arg) and v['clause'] != 'extension-exact':
                exp = case.plab(case.ref.intent_of_sets(case.opos(arg)))
                got = case.ctx.intension(arg)
                raw = case.ctx.intension(arg, raw=True).members()
            else:
                exp = case.olab(case.ref.extent_of_sets(case.ppos(arg)))
                got = case.ctx.extension(arg)
                raw = case.ctx.extension(arg, raw=True).members()
        except Exception as e:
            return [common.library_exception(ID, c, e)]
        if got != exp or tuple(raw) != exp:
            out.append(common.violation(ID, v['clause'], c, exp, got))
        if out:
            return out
    return e1.replay_e1(__import__(__name__, fromlist=['x']), v)
