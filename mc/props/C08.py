"""C08 Order and logical-relation predicates on concepts match their extents.

clause -> what is compared (all results by truthiness, for every ordered pair incl. x is y)
  <=, implies              extent(x) subset of extent(y)   (R1 cross-checks: iff intent(y) subset intent(x))
  >=, subsumes             converse
  <, properly_implies      subset and different
  >, properly_subsumes     converse strict
  antisymmetry             distinct concepts never mutually <=
  incompatible_with        no common object
  complement_of            no common object and together all objects
  subcontrary_with         common object and together all objects
  orthogonal_to            common object, neither contains the other, some object in neither
"""

from .. import common, e1

ID = 'C08'
LEVEL = 'model_checking'
RULE = ('tables: S(12)/S(16) ∪ F, two labelings; every ordered pair of concepts x 12 predicates; '
        'non-trivial = lattice has > 2 concepts and is not a chain; distinct = distinct table')
ASSUMPTIONS = ['predicates are specified by truthiness only', 'extents taken from the public '
               '.extent tuples of the same members (C03 decides that these are right)']
HITS = ('hit_equal_extents', 'hit_empty_extent', 'hit_incomparable_covering', 'hit_orthogonal',
        'hit_nonempty_bottom')
BUDGET = {'quick': 240, 'thorough': 3000}


def shards(tier):
    return e1.std_shards(tier, with_p=True, with_big=True, with_hist=True)


def check_case(case, ctr):
    V = []
    members = list(case.lat)
    ext = [frozenset(c.extent) for c in members]
    inte = [frozenset(c.intent) for c in members]
    allobj = frozenset(case.objs)
    k = len(members)

    def bad(clause, exp, got, i, j):
        V.append(common.violation(ID, clause, case.ident(pair=[i, j]), exp, got,
                                  repro=case.py_ctx() + f'l = list(c.lattice)\nx, y = l[{i}], l[{j}]\n'
                                  f'print(x, y)  # predicate {clause} expected {exp}\n'))

    big = k > 100
    for i in range(k):
        x, a = members[i], ext[i]
        # every partner up to 100 concepts; above: bounds, itself, mirror, neighbours in the
        # iteration order and two strides (the predicates are per-pair bit tests)
        js = range(k) if not big else sorted({0, k - 1, i, k - 1 - i, (i + 1) % k, (i - 1) % k,
                                              (i * 7 + 3) % k, (i + k // 2) % k})
        for j in js:
            y, b = members[j], ext[j]
            sub, sup = a <= b, a >= b
            if sub != (inte[j] <= inte[i]):
                bad('extent-intent-duality', sub, inte[j] <= inte[i], i, j)
            share = bool(a & b)
            cover = (a | b) == allobj
            exp = {
                '__le__': sub, 'implies': sub, '__ge__': sup, 'subsumes': sup,
                '__lt__': sub and a != b, 'properly_implies': sub and a != b,
                '__gt__': sup and a != b, 'properly_subsumes': sup and a != b,
                'incompatible_with': not share,
                'complement_of': (not share) and cover,
                'subcontrary_with': share and cover,
                'orthogonal_to': share and not sub and not sup and not cover,
            }
            got = {
                '__le__': x <= y, 'implies': x.implies(y), '__ge__': x >= y, 'subsumes': x.subsumes(y),
                '__lt__': x < y, 'properly_implies': x.properly_implies(y),
                '__gt__': x > y, 'properly_subsumes': x.properly_subsumes(y),
                'incompatible_with': x.incompatible_with(y), 'complement_of': x.complement_of(y),
                'subcontrary_with': x.subcontrary_with(y), 'orthogonal_to': x.orthogonal_to(y),
            }
            ctr['calls'] += 12
            for name, e in exp.items():
                if bool(got[name]) != e:
                    bad(name, e, repr(got[name]), i, j)
            if i != j and bool(got['__le__']) and bool(members[j] <= members[i]):
                bad('antisymmetry', False, True, i, j)
            if i == j:
                ctr['hit_equal_extents'] += 1
            if i != j:
                if not a or not b:
                    ctr['hit_empty_extent'] += 1
                if not sub and not sup and cover:
                    ctr['hit_incomparable_covering'] += 1
                if exp['orthogonal_to']:
                    ctr['hit_orthogonal'] += 1
        if len(V) > 4:
            break
    if ext and min(ext, key=len):
        ctr['hit_nonempty_bottom'] += 1
    return V


def run_shard(shard, tier):
    return e1.run_shard_generic(shard, tier, ID, check_case, variants=('pickle', 'fromdict-raw', 'used'))


def main(tier):
    return e1.main_e1(__import__(__name__, fromlist=['x']), tier)


def replay(v):
    return e1.replay_e1(__import__(__name__, fromlist=['x']), v)
