"""C03 The lattice contains exactly the formal concepts of the context, once each.

clause -> what is compared
  every pair, nothing else   set of (extent, intent) label-frozenset pairs from iter(lattice)
                             == R1 concept set (three independent enumerations, cross-checked)
  no pair repeated           len(list) == len(set)
  len(lattice)               == number of R1 concepts
  A' = B and B' = A          each yielded pair checked with R1 derivation by definition
  bottom / top present       closure of the empty object set and (all objects, their common
                             properties) are among the yielded pairs
  all crosses                table without a blank -> exactly one concept
  sibling contexts           the same with two more live contexts over the same labels but the
                             complemented table, created before / after and before any lattice is
                             requested (every table of S): both the case context and the older sibling
                             must still give their own concept sets
"""

import itertools

from .. import common, e1, space

ID = 'C03'
LEVEL = 'model_checking'
RULE = ('every boolean table of every shape n x m with n*m <= B (quick B=12, thorough B=16 plus '
        '4x5 and 5x4), every <=d-flip neighbour of the standard scales (F), every S(6) table '
        'embedded behind 29..127 padding rows/columns (P) and whole wide nominal/ordinal scales '
        '(W); each in two labelings; non-trivial = lattice has > 2 concepts and is not a chain; '
        'distinct = distinct table')
ASSUMPTIONS = ['R1 (mc/refmodel.py) implements the textbook definitions; its three concept '
               'enumerations are cross-checked on every table',
               'labels are opaque strings; two labelings (ascending/descending) are explored']
HITS = ('hit_all_cross', 'hit_nonempty_bottom', 'hit_sibling_schedule', 'hit_use_history')
BUDGET = {'quick': 240, 'thorough': 3000}


def shards(tier):
    if tier == 'quick':
        sh = e1.std_shards(tier, with_p=True, with_big=True, with_hist=True)
        sh += space.w_shards(sizes=(31, 65), kinds=('ordinal',))
    else:
        sh = e1.std_shards(tier, with_p=True, with_big=True, with_hist=True, extra_thorough_shapes=((4, 5), (5, 4)))
        sh += [s for s in space.w_shards() if s not in sh] + [('W', 'ordinal', 1200)]
    return sh


def check_case(case, ctr):
    V = []
    ref = case.ref
    lat = case.ctx.lattice
    got = [(frozenset(c.extent), frozenset(c.intent)) for c in lat]
    ctr['calls'] += 1 + len(got)
    exp = {(frozenset(case.olab(e)), frozenset(case.plab(i))) for e, i in ref.concepts}

    def bad(clause, expected, observed):
        V.append(common.violation(ID, clause, case.ident(), expected, observed,
                                  repro=case.py_ctx() +
                                  'print([(c.extent, c.intent) for c in c.lattice])\n'
                                  f'# clause {clause}: expected {expected!r}\n'))

    if len(got) != len(set(got)):
        ctr['hit_repeat'] += 0
        bad('no-repeat', sorted(map(_pp, exp)), sorted(map(_pp, got)))
    if set(got) != exp:
        bad('concept-set', sorted(map(_pp, exp)), sorted(map(_pp, set(got))))
    if len(lat) != len(exp):
        bad('len', len(exp), len(lat))
    for e, i in got:
        pe = case.opos(e)
        pi = case.ppos(i)
        if not ref.is_concept(pe, pi):
            bad('is-formal-concept', None, _pp((e, i)))
            break
    bottom = frozenset(case.olab(ref.closure_objs(())))
    top = frozenset(case.objs)
    extents = {e for e, _ in got}
    if bottom not in extents:
        bad('bottom-present', sorted(bottom), sorted(map(sorted, extents)))
    if top not in extents:
        bad('top-present', sorted(top), sorted(map(sorted, extents)))
    if all(all(r) for r in case.rows):
        ctr['hit_all_cross'] += 1
        if len(got) != 1:
            bad('all-cross-one-concept', 1, len(got))
    if ref.closure_objs(()):
        ctr['hit_nonempty_bottom'] += 1
    # a history of read-only uses of the same lattice object (joins and meets of every pair and of
    # the empty family, lookups by non-closed object / property sets, traversals, printing) must
    # leave iteration and len as they were
    if case.labeling == space.ASC and case.n * case.m <= 16:
        ctr['hit_use_history'] += 1
        cs = list(lat)[:12]
        for x in cs:
            for y in cs:
                lat.join([x, y]); lat.meet([x, y]); x | y; x & y
        lat.join([]); lat.meet([]); lat.join(cs); lat.meet(cs)
        for r in (1, 2):
            for sub in itertools.combinations(case.objs[:6], r):
                lat[sub]
            for sub in itertools.combinations(case.props[:6], r):
                lat(sub)
        lat[()]; lat(())
        list(lat.upset_union(cs[:3])); list(lat.downset_union(cs[:3]))
        str(lat); repr(lat); lat.atoms
        ctr['calls'] += 4 * len(cs) ** 2 + 12
        got3 = [(frozenset(c.extent), frozenset(c.intent)) for c in lat]
        if got3 != got or len(lat) != len(got3) or len(got3) != len(exp):
            bad('len-and-iteration-after-use-history', [len(exp), sorted(map(_pp, exp))],
                [len(lat), sorted(map(_pp, got3))])
    # a sub-lattice requested (or its construction failing) first must not change context.lattice
    if case.variant == 'fresh' and case.labeling == space.ASC and case.n * case.m <= 9:
        from concepts import lattices
        c2 = case.fresh_ctx()
        for o in case.objs[:2]:
            try:
                lattices.Lattice(c2, infimum=(o,))
            except Exception:
                pass        # outside the property; only its effect on c2.lattice matters
        got2 = {(frozenset(c.extent), frozenset(c.intent)) for c in c2.lattice}
        ctr['calls'] += 1
        if got2 != exp or len(c2.lattice) != len(exp):
            bad('concept-set-after-sublattice-request', sorted(map(_pp, exp)), sorted(map(_pp, got2)))
    # neighbour lists handed out by Context.neighbors() and emptied by the caller BEFORE the
    # lattice is first requested
    if case.variant == 'fresh' and case.labeling == space.ASC and case.n * case.m <= 12:
        c3 = case.fresh_ctx()
        for r in range(0, min(case.n, 3) + 1):
            for sub in itertools.combinations(case.objs, r):
                for raw in (True, False):
                    try:
                        handed = c3.neighbors(sub, raw=raw)
                        if isinstance(handed, list):
                            del handed[:]
                    except Exception:
                        pass
        got4 = {(frozenset(c.extent), frozenset(c.intent)) for c in c3.lattice}
        ctr['calls'] += 1
        if got4 != exp or len(c3.lattice) != len(exp):
            bad('concept-set-after-editing-handed-out-neighbor-lists', sorted(map(_pp, exp)),
                sorted(map(_pp, got4)))
    # interleaving with sibling contexts over the same labels (lazy lattice computed later)
    if case.labeling == space.ASC and case.n * case.m <= 16:
        older, a, newer, iref = e1.sibling_schedule(case)
        ctr['calls'] += 2
        ctr['hit_sibling_schedule'] += 1
        got_a = {(frozenset(c.extent), frozenset(c.intent)) for c in a.lattice}
        if got_a != exp:
            bad('concept-set-with-sibling-contexts', sorted(map(_pp, exp)), sorted(map(_pp, got_a)))
        iexp = {(frozenset(case.olab(e)), frozenset(case.plab(i))) for e, i in iref.concepts}
        got_o = {(frozenset(c.extent), frozenset(c.intent)) for c in older.lattice}
        if got_o != iexp:
            bad('concept-set-of-older-sibling', sorted(map(_pp, iexp)), sorted(map(_pp, got_o)))
        del older, a, newer
    return V


def _pp(pair):
    return [sorted(pair[0]), sorted(pair[1])]


def run_shard(shard, tier):
    return e1.run_shard_generic(shard, tier, ID, check_case, variants=('truthy-cells', 'used'))


def main(tier):
    return e1.main_e1(__import__(__name__, fromlist=['x']), tier)


def replay(v):
    return e1.replay_e1(__import__(__name__, fromlist=['x']), v)
