"""C17 All results are deterministic across processes and hash seeds.

The only nondeterminism a sequential Python library has is the iteration order
of sets/dicts of strings (PYTHONHASHSEED) and of id-hashed objects (addresses).
Both are owned by the harness and *all* their answers are enumerated:

phase / clause -> what is compared
  A definitions   every definition of the universe x every operation instance (plus unions /
                  intersections / take with name orders reversed): resulting triple, return value
                  or exception class + message and table text must be identical under EVERY
                  permutation of the hash ranks of the labels (HashLabel seam: 120 resp. 720)
  B contexts      every table up to 3x2/2x3 (thorough 3x3): text in every format, dict, JSON,
                  lattice string, members with index/dindex/labels/atoms/neighbours, generators,
                  relations, graphviz, traversal unions, join/meet, reloads - identical under every
                  permutation of the label hash ranks, and under every explored iteration order of
                  the id-hashed sets (set-order seam)
  C messages      constructor / fromdict / definition error messages listing names, all 720 perms
  D processes     the same corpus with plain str labels in fresh interpreters under five
                  PYTHONHASHSEED values: digests equal to each other and to the in-process
                  HashLabel run (conformance of the seams)
Outside the corpus (see DESIGN): queries naming two or more unknown labels.
"""

import collections
import itertools
import json
import os
import subprocess
import time

from .. import c17corpus, common, env, explore, space, tablemodel as tm

ID = 'C17'
ENGINE = 'E3-envspace'
LEVEL = 'model_checking'
TECHNIQUE = ('exhaustive enumeration of environment answers: every permutation of the string-hash '
             'ranks of a bounded label set and every explored order of id-hashed sets, on the real '
             'code, for every state x operation of a bounded universe; plus fresh-interpreter '
             'conformance runs under several PYTHONHASHSEED')
RULE = ('states = (definition state | context table | error scenario) x hash-rank permutation; '
        'transitions = library calls observed; non-trivial = observation keys whose value '
        'involves at least two labels (all definition states with >= 2 names on an axis, all '
        'tables with >= 2 rows or columns); distinct = distinct (state, operation) keys')
ASSUMPTIONS = ['CPython iterates small sets in slot order = hash & mask, so rank permutations '
               'produce every iteration order of the label sets involved (HashLabel seam)',
               'sets built from tuples of labels follow the label ranks but are not permuted '
               'independently',
               'memory addresses embedded in reprs are masked']
HITS = ('hit_seam', 'hit_perm_pairs')
SEEDS = (0, 1, 2, 3, 4242)

ONAMES = ('oa', 'ob', 'oc')
PNAMES = ('px', 'py', 'pz')


def def_universes(tier):
    if tier == 'quick':
        return [(('a', 'b', 'c'), ('x', 'y')), (('a', 'b', 'c'), ('a', 'y')),
                (('a', 'b'), ('x', 'y', 'z'))]
    return [(('a', 'b', 'c'), ('x', 'y', 'z')), (('a', 'b', 'c'), ('a', 'y', 'z')),
            (('a', 'b'), ('x', 'y', 'z'))]


def shards(tier):
    # the short phases first, the definition universes (the bulk of the thorough tier) last, so
    # that a time cap can only ever cut the tail of phase A
    sh = [('C',), ('BIGDEF',), ('BIGCTX',)]
    maxcells = 6 if tier == 'quick' else 9
    for n in range(1, 4):
        for m in range(1, 4):
            if n * m > maxcells:
                continue
            total = 1 << (n * m)
            step = 4 if n + m >= 5 else 16
            for i in range(0, total, step):
                sh.append(('B', n, m, i, min(total, i + step)))
    for ui, uni in enumerate(def_universes(tier)):
        n = len(list(tm.all_states(*uni)))
        step = 16 if tier == 'quick' else 64
        for i in range(0, n, step):
            sh.append(('A', ui, i, min(n, i + step)))
    return sh


def perms_for(names, tier, kind):
    names = list(names)
    allp = list(itertools.permutations(range(len(names))))
    if kind == 'A' and (tier == 'quick' or len(names) >= 6):
        # all k! x states x ~300 ops is out of reach for 6 labels (and too slow for the quick
        # tier): a 3-wise complete family (every ordering of every 3 labels occurs, hence every
        # iteration order of every set of <= 3 labels) - stated in the evidence
        return three_wise(len(names))
    return allp


def three_wise(k):
    """A family of permutations of range(k) in which every ordered triple of
    distinct elements appears in that relative order (greedy cover)."""
    need = set(itertools.permutations(range(k), 3))
    fam = []
    import random
    rnd = random.Random(12345)     # fixed: the family is a constant of the harness
    cands = list(itertools.permutations(range(k)))
    while need:
        best, bestc = None, -1
        for p in rnd.sample(cands, min(len(cands), 60)):
            pos = {v: i for i, v in enumerate(p)}
            c = sum(1 for t in need if pos[t[0]] < pos[t[1]] < pos[t[2]])
            if c > bestc:
                best, bestc = p, c
        fam.append(best)
        pos = {v: i for i, v in enumerate(best)}
        need = {t for t in need if not (pos[t[0]] < pos[t[1]] < pos[t[2]])}
    return fam


def compare(base, other, kind, info, ranks_a, ranks_b, V):
    bd = dict(base)
    for k, v in other:
        if bd.get(k) != v:
            V.append(common.violation(
                ID, f'{kind}-deterministic', dict(info, key=k, ranks_a=ranks_a, ranks_b=ranks_b),
                bd.get(k, '')[:600], v[:600],
                signature=f'C17:{kind}:{k.split(":")[-1] if kind != "definition" else "transition"}'))
            return False
    return True


def run_a(shard, tier):
    _, ui, lo, hi = shard
    uni = def_universes(tier)[ui]
    names = sorted(set(uni[0]) | set(uni[1]))
    states = list(tm.all_states(*uni))[lo:hi]
    ctr = collections.Counter()
    V = []
    base = None
    ranks0 = None
    perms = perms_for(names, tier, 'A')
    for perm in perms:
        ranks = dict(zip(names, perm))
        env.HashLabel.ranks = ranks
        obs = c17corpus.definition_obs(uni, states, None) + c17corpus.derived_obs(uni, states)
        ctr['calls'] += len(obs)
        if base is None:
            base, ranks0 = obs, ranks
            ctr['keys'] += len(obs)
        elif not compare(base, obs, 'definition', {'universe': [list(uni[0]), list(uni[1])]},
                         ranks0, ranks, V):
            break
        ctr['hit_perm_pairs'] += 1
    ctr['tables'] += len(states)
    ctr['nontrivial'] += sum(1 for s in states if len(s[0]) >= 2 or len(s[1]) >= 2)
    ctr['evaluations'] += len(states) * len(perms)
    sample = [{'phase': 'A', 'state': tm.triple(states[-1]), 'permutations': len(perms)}]
    return {'counters': dict(ctr), 'violations': V, 'samples': sample, 'outcomes': []}


def run_b(shard, tier):
    _, n, m, lo, hi = shard
    on, pn = ONAMES[:n], PNAMES[:m]
    names = list(on) + list(pn)
    ctr = collections.Counter()
    V = []
    perms = list(itertools.permutations(range(len(names))))
    for code in range(lo, hi):
        rows = space.rows_of(n, m, code)
        base = ranks0 = None
        info = {'shape': [n, m], 'code': code,
                'table': [''.join('X' if b else '.' for b in r) for r in rows]}
        for perm in perms:
            ranks = dict(zip(names, perm))
            env.HashLabel.ranks = ranks
            obs = c17corpus.context_obs(env.labels(on), env.labels(pn), rows)
            ctr['calls'] += len(obs)
            if base is None:
                base, ranks0 = obs, ranks
                ctr['keys'] += len(obs)
            elif not compare(base, obs, 'context', info, ranks0, ranks, V):
                break
            ctr['hit_perm_pairs'] += 1
        # id-hashed set orders, under the identity ranks
        env.HashLabel.ranks = dict(zip(names, range(len(names))))
        mods = env.install_set_seam()
        try:
            h0 = env.SeamSet.hits
            env.SeamSet.max_k = 0
            first = c17corpus.context_obs(env.labels(on), env.labels(pn), rows)
            norders = min(24, env.n_orders(env.SeamSet.max_k))
            for choice in range(1, norders):
                env.SeamSet.choice = choice
                obs = c17corpus.context_obs(env.labels(on), env.labels(pn), rows)
                ctr['calls'] += len(obs)
                if not compare(first, obs, 'context-set-order', dict(info, set_order=choice),
                               ranks0, ranks0, V):
                    break
            ctr['hit_seam'] += env.SeamSet.hits - h0
            if base is not None and not V:
                compare(base, first, 'context-seam-vs-plain', info, ranks0, ranks0, V)
        finally:
            env.SeamSet.choice = 0
            env.remove_set_seam(mods)
        ctr['tables'] += 1
        ctr['evaluations'] += len(perms)
        if n >= 2 or m >= 2:
            ctr['nontrivial'] += 1
        if V:
            break
    return {'counters': dict(ctr), 'violations': V[:3],
            'samples': [{'phase': 'B', 'shape': [n, m], 'code': lo, 'permutations': len(perms)}],
            'outcomes': []}


def run_c(tier):
    names = list(ONAMES) + list(PNAMES)
    ctr = collections.Counter()
    V = []
    base = ranks0 = None
    for perm in itertools.permutations(range(6)):
        ranks = dict(zip(names, perm))
        env.HashLabel.ranks = ranks
        obs = c17corpus.error_obs(env.labels(ONAMES), env.labels(PNAMES))
        ctr['calls'] += len(obs)
        if base is None:
            base, ranks0 = obs, ranks
            ctr['keys'] += len(obs)
        else:
            bd = dict(base)
            for k, v in obs:
                if bd[k] != v:
                    V.append(common.violation(ID, 'message-deterministic',
                                              {'scenario': k, 'ranks_a': ranks0, 'ranks_b': ranks},
                                              bd[k], v, signature=f'C17:message:{k}'))
            if V:
                break
        ctr['evaluations'] += 1
    ctr['tables'] += len(base)
    ctr['nontrivial'] += len(base)
    return {'counters': dict(ctr), 'violations': V, 'samples': [], 'outcomes': []}


def run_bigdef(tier):
    """Big definitions (12 x 9 names, long argument lists) under opposite rank
    assignments: a set of 5+ labels iterates in rank order, so two opposite
    assignments contradict any required order for every pair of names."""
    from .. import bigdefs
    universe = bigdefs.UNIVERSE
    names = sorted(set(universe[0]) | set(universe[1]))
    ctr = collections.Counter()
    V = []
    rank_sets = [{n: i for i, n in enumerate(names)},
                 {n: len(names) - i for i, n in enumerate(names)},
                 {n: (i * 7) % len(names) for i, n in enumerate(names)}]
    base = None
    for ranks in rank_sets:
        env.HashLabel.ranks = ranks
        obs = []
        for sname, s in bigdefs.base_states():
            for op in bigdefs.big_ops(s):
                real = explore.make_real(s)
                try:
                    ret = explore.apply_real(real, op)
                    r = 'ok:' + repr(explore.norm_ret(op[0], ret))
                except Exception as e:
                    r = f'raise:{type(e).__name__}:{e}'
                key = json.dumps([sname, explore.enc_op(op)])
                obs.append((key, repr(explore.visible(real)) + '|' + r))
            d = explore.make_real(s)
            for oname, t in bigdefs.operands():
                e = explore.make_real(t)
                for name, fn in (('union', lambda: d.union(e, ignore_conflicts=True)),
                                 ('intersection', lambda: d.intersection(e, ignore_conflicts=True)),
                                 ('or', lambda: d | e), ('rand', lambda: e & d),
                                 ('take', lambda: d.take([explore.L(x) for x in reversed(t[0])
                                                          if x in s[0]] or None)),
                                 ('take-reorder', lambda: d.take(None, [explore.L(x) for x in reversed(t[1])
                                                                       if x in s[1]] or None,
                                                                reorder=True))):
                    obs.append((json.dumps([sname, oname, name]), c17corpus.exc(fn)))
        ctr['calls'] += len(obs)
        if base is None:
            base, ranks0 = obs, ranks
            ctr['keys'] += len(obs)
        else:
            compare(base, obs, 'definition', {'universe': 'big'}, ranks0, ranks, V)
        ctr['evaluations'] += 1
    ctr['tables'] += len(bigdefs.base_states())
    ctr['nontrivial'] += len(bigdefs.base_states())
    return {'counters': dict(ctr), 'violations': V[:2], 'samples': [], 'outcomes': []}


def run_bigctx(tier):
    """A context with more than 1000 cells (40 x 30) and long labels."""
    n, m = 40, 30
    on = [f'obj{i:02d}' for i in range(n)]
    pn = [f'prop{j:02d}' for j in range(m)]
    rows = [tuple((i * j + i + 2 * j) % 5 < 2 for j in range(m)) for i in range(n)]
    names = on + pn
    ctr = collections.Counter()
    V = []
    base = None
    for ranks in ({x: i for i, x in enumerate(names)}, {x: len(names) - i for i, x in enumerate(names)},
                  {x: (i * 11) % len(names) for i, x in enumerate(names)}):
        env.HashLabel.ranks = ranks
        obs = c17corpus.context_obs(env.labels(on), env.labels(pn), rows, unions=False)
        ctr['calls'] += len(obs)
        if base is None:
            base, ranks0 = obs, ranks
            ctr['keys'] += len(obs)
        else:
            compare(base, obs, 'context', {'shape': [n, m], 'code': 'big'}, ranks0, ranks, V)
        ctr['evaluations'] += 1
    ctr['tables'] += 1
    ctr['nontrivial'] += 1
    return {'counters': dict(ctr), 'violations': V[:2], 'samples': [], 'outcomes': []}


def run_shard(shard, tier):
    try:
        if shard[0] == 'BIGDEF':
            return run_bigdef(tier)
        if shard[0] == 'BIGCTX':
            return run_bigctx(tier)
        if shard[0] == 'A':
            return run_a(shard, tier)
        if shard[0] == 'B':
            return run_b(shard, tier)
        return run_c(tier)
    finally:
        env.HashLabel.ranks = {}


def start_processes(tier):
    """Fresh interpreters, plain str labels, several PYTHONHASHSEED."""
    script = os.path.join(common.VERIF, 'mc', 'c17corpus.py')
    procs = {}
    for s in SEEDS:
        envv = dict(os.environ, PYTHONHASHSEED=str(s))
        procs[s] = subprocess.Popen([common.PY, script, tier], stdout=subprocess.PIPE,
                                    stderr=subprocess.PIPE, text=True, env=envv)
    return procs


def phase_d(res, tier, procs):
    outs = {}
    for s, p in procs.items():
        out, err = p.communicate(timeout=3000)
        if res.violations:
            continue
        if p.returncode != 0:
            # an exception of the library in a fresh interpreter only: report as a violation
            res.violations.append(common.violation(
                ID, 'process-run', {'seed': s}, 'exit 0', err[-800:],
                signature='C17:process-run'))
            return
        outs[s] = dict((l.split()[0], l.split()[1]) for l in out.strip().splitlines())
        res.counters['calls'] += sum(int(l.split()[2]) for l in out.strip().splitlines())
    if res.violations:
        return
    res.counters['processes'] = len(outs)
    # conformance with the HashLabel seam (identity ranks) in this process
    names = list(ONAMES) + list(PNAMES) + ['a', 'b', 'c', 'x', 'y', 'z']
    env.HashLabel.ranks = {n: i for i, n in enumerate(names)}
    local = {k: c17corpus.digest(v)
             for k, v in c17corpus.plain_items(tier, label=env.HashLabel).items()}
    env.HashLabel.ranks = {}
    ref_seed = SEEDS[0]
    for s in SEEDS[1:] + ('seam',):
        cur = local if s == 'seam' else outs[s]
        for sec, dg in outs[ref_seed].items():
            if cur.get(sec) != dg:
                detail = first_difference(tier, sec, ref_seed, s) if s != 'seam' else None
                res.violations.append(common.violation(
                    ID, 'process-deterministic',
                    {'section': sec, 'seed_a': ref_seed, 'seed_b': s, 'first_difference': detail},
                    dg, cur.get(sec), signature=f'C17:process:{sec}:{(detail or {}).get("key", "")}'))
                return


def first_difference(tier, section, sa, sb):
    script = os.path.join(common.VERIF, 'mc', 'c17corpus.py')
    dumps = []
    for s in (sa, sb):
        envv = dict(os.environ, PYTHONHASHSEED=str(s))
        r = subprocess.run([common.PY, script, tier, section], capture_output=True, text=True,
                           env=envv, timeout=3000)
        dumps.append([json.loads(l) for l in r.stdout.splitlines()])
    for x, y in zip(*dumps):
        if x != y:
            return {'key': x[0], 'a': x[2], 'b': y[2]}
    return None


def main(tier):
    t0 = time.time()
    res = common.Result(ID)
    res.expected_hits = HITS
    procs = start_processes(tier)
    common.run_pool(res, __name__, 'run_shard', shards(tier), tier,
                    budget_s={'quick': 300, 'thorough': 9000}[tier], maxtasks=4)
    phase_d(res, tier, procs)
    res.extra['hash_seeds'] = list(SEEDS)
    res.extra['distinct_observation_keys'] = int(res.counters.get('keys', 0))
    res.outcomes = set(range(int(res.counters.get('keys', 0))))
    res.extra['definition_universes'] = [[list(u[0]), list(u[1])] for u in def_universes(tier)]
    return common.finish(res, tier, LEVEL, RULE, ASSUMPTIONS, t0)


def replay(v):
    c = v['case']
    out = []
    if v['clause'] == 'message-deterministic':
        vals = []
        for ranks in (c['ranks_a'], c['ranks_b']):
            env.HashLabel.ranks = ranks
            vals.append(dict(c17corpus.error_obs(env.labels(ONAMES), env.labels(PNAMES)))[c['scenario']])
        if vals[0] != vals[1]:
            out.append(common.violation(ID, v['clause'], c, vals[0], vals[1]))
    elif c.get('universe') == 'big':
        out = run_bigdef('quick')['violations']
    elif c.get('code') == 'big':
        out = run_bigctx('quick')['violations']
    elif v['clause'].startswith('context'):
        n, m = c['shape']
        rows = space.rows_of(n, m, c['code'])
        r = run_b(('B', n, m, c['code'], c['code'] + 1), 'quick')
        out = r['violations']
    elif v['clause'].startswith('definition'):
        uni = (tuple(c['universe'][0]), tuple(c['universe'][1]))
        state_triple = json.loads(c['key'])
        state_triple = state_triple[0] if len(state_triple) == 2 else state_triple   # [triple, op] | triple
        s = tm.from_triple(*state_triple)
        vals = []
        for ranks in (c['ranks_a'], c['ranks_b']):
            env.HashLabel.ranks = ranks
            vals.append(dict(c17corpus.definition_obs(uni, [s], None)
                             + c17corpus.derived_obs(uni, [s])).get(c['key']))
        if vals[0] != vals[1]:
            out.append(common.violation(ID, v['clause'], c, vals[0], vals[1]))
    elif v['clause'].startswith('process'):
        d = first_difference('quick', c['section'], c['seed_a'], c['seed_b']) \
            if c.get('seed_b') != 'seam' else None
        if d:
            out.append(common.violation(ID, v['clause'], c, d['a'], d['b']))
    env.HashLabel.ranks = {}
    return out
