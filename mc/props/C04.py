"""C04 All three concept generators agree on the set of concepts.

clause -> what is compared
  each generator complete+sound   set of (extent members, intent members) == R1 concept set
  exactly once                    no repeats in the emitted sequence
  wrappers                        get_concepts: list of Concept named tuples whose
                                  .objects/.properties/.index_sets() agree with the raw pair;
                                  iterconcepts: iterator of the same
Emission order is deliberately not compared.
"""

import itertools

from .. import common, e1, space

ID = 'C04'
LEVEL = 'model_checking'
RULE = ('tables: S(12)/S(16)+4x5+5x4 ∪ F ∪ P ∪ W as in C03, two labelings; five producers per '
        'table (fast_generate_from, fcbo_dual, get_concepts, iterconcepts, context.lattice); '
        'non-trivial = lattice has > 2 concepts and is not a chain; distinct = distinct table')
ASSUMPTIONS = ['R1 concept set (three cross-checked enumerations)']
HITS = ('hit_canonicity_relevant', 'hit_sibling_schedule')
BUDGET = {'quick': 240, 'thorough': 3000}


def shards(tier):
    if tier == 'quick':
        return [('DEEP', 1200)] + e1.std_shards(tier, with_p=True, with_big=True, with_hist=True) + \
            space.w_shards(sizes=(31, 65), kinds=('ordinal',))
    sh = e1.std_shards(tier, with_p=True, with_big=True, with_hist=True, extra_thorough_shapes=((4, 5), (5, 4)))
    return sh + [s for s in space.w_shards() if s not in sh] + [('W', 'ordinal', 1200)]


def check_case(case, ctr):
    from concepts import algorithms
    V = []
    ref, ctx = case.ref, case.ctx
    exp = {(case.olab(e), case.plab(i)) for e, i in ref.concepts}

    def bad(clause, producer, got):
        V.append(common.violation(ID, clause, case.ident(producer=producer),
                                  sorted(exp), sorted(got),
                                  repro=case.py_ctx() + 'from concepts import algorithms\n'
                                  f'print(list(algorithms.{producer}(c)))\n'))

    producers = [
        ('fast_generate_from', lambda: [(e.members(), i.members())
                                        for e, i in algorithms.fast_generate_from(ctx)]),
        ('fcbo_dual', lambda: [(e.members(), i.members()) for e, i in algorithms.fcbo_dual(ctx)]),
        ('iterconcepts', lambda: [(c.extent.members(), c.intent.members())
                                  for c in algorithms.iterconcepts(ctx)]),
        ('get_concepts', lambda: [(c.extent.members(), c.intent.members())
                                  for c in algorithms.get_concepts(ctx)]),
        ('lattice', lambda: [(c.extent, c.intent) for c in ctx.lattice]),
    ]
    for name, fn in producers:
        got = fn()
        ctr['calls'] += 1
        if len(got) != len(set(got)):
            bad('exactly-once', name, got)
        if set(got) != exp:
            bad('concept-set', name, got)
    if V:
        return V
    # interleaving with sibling contexts over the same labels (complemented table), created before
    # and after the case context and before any of them is used
    if case.labeling == space.ASC and case.variant == 'fresh' and case.n * case.m <= 16:
        older, a, newer, iref = e1.sibling_schedule(case)
        ctr['hit_sibling_schedule'] += 1
        iexp = {(case.olab(e), case.plab(i)) for e, i in iref.concepts}
        for c, want, who in ((a, exp, 'case-context'), (older, iexp, 'older-sibling')):
            for name, gen in (('fast_generate_from', algorithms.fast_generate_from),
                              ('fcbo_dual', algorithms.fcbo_dual)):
                got = [(e.members(), i.members()) for e, i in gen(c)]
                ctr['calls'] += 1
                if len(got) != len(set(got)) or set(got) != want:
                    V.append(common.violation(ID, 'concept-set-with-sibling-contexts',
                                              case.ident(producer=name, which=who),
                                              sorted(want), sorted(got)))
                    return V
        del older, a, newer
    # two live enumerations of one context, advanced in lock-step, and one abandoned half-way
    if case.n * case.m <= 16:
        for name in ('iterconcepts', 'fast_generate_from', 'fcbo_dual'):
            fn = getattr(algorithms, name)
            norm = (lambda x: (x.extent.members(), x.intent.members())) if name == 'iterconcepts' \
                else (lambda x: (x[0].members(), x[1].members()))
            # on a context none of whose enumerations has ever been run to the end
            cx = case.fresh_ctx() if case.variant == 'fresh' else ctx
            it1, it2 = iter(fn(cx)), iter(fn(cx))
            half = iter(fn(cx))
            next(half, None)
            got1, got2 = [], []
            for a_, b_ in zip(it1, it2):
                got1.append(norm(a_))
                got2.append(norm(b_))
            got1.extend(norm(x) for x in it1)
            got2.extend(norm(x) for x in it2)
            ctr['calls'] += 3
            for got in (got1, got2, [norm(x) for x in fn(cx)]):
                if len(got) != len(set(got)) or set(got) != exp:
                    bad('concept-set', name + '-two-live-enumerations', got)
                    return V
    # two live enumerations of one (fresh) context under every schedule with two switches:
    # the first is advanced a items, the second b items, then the first is finished, then the second
    if case.n * case.m <= 9 and case.variant == 'fresh' and case.labeling == space.ASC:
        K = len(exp)
        for name in ('iterconcepts', 'fast_generate_from', 'fcbo_dual'):
            fn = getattr(algorithms, name)
            norm = (lambda x: (x.extent.members(), x.intent.members())) if name == 'iterconcepts' \
                else (lambda x: (x[0].members(), x[1].members()))
            for a_n in range(K + 1):
                for b_n in range(K + 1):
                    cx = case.fresh_ctx()
                    it1, it2 = iter(fn(cx)), iter(fn(cx))
                    g1 = [norm(x) for x in itertools.islice(it1, a_n)]
                    g2 = [norm(x) for x in itertools.islice(it2, b_n)]
                    g1.extend(norm(x) for x in it1)
                    g2.extend(norm(x) for x in it2)
                    ctr['calls'] += 2
                    ctr['hit_two_enumeration_schedules'] += 1
                    for got in (g1, g2):
                        if len(got) != len(set(got)) or set(got) != exp:
                            V.append(common.violation(
                                ID, 'concept-set', case.ident(
                                    producer=name, schedule=f'first {a_n}, second {b_n}, '
                                    'finish first, finish second'), sorted(exp), sorted(got)))
                            return V
    # a returned list is the caller's: changing it must not change a later answer
    first = algorithms.get_concepts(ctx)
    if isinstance(first, list):
        del first[:1]
        first.extend(first[:1])
        again = [(c.extent.members(), c.intent.members()) for c in algorithms.get_concepts(ctx)]
        ctr['calls'] += 1
        if len(again) != len(set(again)) or set(again) != exp:
            bad('concept-set', 'get_concepts-after-mutating-earlier-result', again)
            return V
    cl = algorithms.get_concepts(ctx)
    if not isinstance(cl, list):
        bad('get_concepts-is-list', 'get_concepts', [])
    for c in cl:
        e, i = c
        if (c.objects != e.members() or c.properties != i.members()
                or c.index_sets() != (case.opos(e.members()), case.ppos(i.members()))
                or c.index_sets(as_set=True) != (frozenset(case.opos(e.members())),
                                                 frozenset(case.ppos(i.members())))
                or c.n_objects != len(e.members()) or c.n_properties != len(i.members())):
            bad('concept-namedtuple', 'get_concepts', [])
            break
    # closure adds a lower-numbered attribute somewhere: the canonicity test matters
    if any(min(ref.closure_props([j]) or [j]) < j for j in range(case.m)):
        ctr['hit_canonicity_relevant'] += 1
    return V


def run_deep(k):
    """The staircase of k objects: the two FCbO generators against each other and against
    the concept set written down directly (extent {0..i} with intent {i..k-1}); no R1."""
    import collections
    import concepts
    from concepts import algorithms
    ctr = collections.Counter()
    objs = tuple(f'o{i:04d}' for i in range(k))
    props = tuple(f'p{j:04d}' for j in range(k))
    V = []
    for kind in ('ordinal', 'ordinal-rev'):     # both orientations of the staircase
        ctx = concepts.Context(objs, props, space.scale(kind, k))
        if kind == 'ordinal':       # row i has the properties i..k-1
            exp = {(objs[:i + 1], props[i:]) for i in range(k)}
        else:                       # row i has the properties 0..i
            exp = {(objs[i:], props[:i + 1]) for i in range(k)}
        for name, fn in (('fast_generate_from', algorithms.fast_generate_from),
                         ('fcbo_dual', algorithms.fcbo_dual)):
            case = {'family': kind, 'k': k, 'producer': name}
            try:
                got = [(e.members(), i.members()) for e, i in fn(ctx)]
            except Exception as e:
                V.append(common.library_exception(ID, case, e))
                continue
            ctr['calls'] += 1
            if len(got) != len(set(got)) or set(got) != exp:
                V.append(common.violation(ID, 'concept-set', case,
                                          f'{len(exp)} nested concepts', f'{len(got)} pairs'))
    ctr['tables'] += 1
    ctr['evaluations'] += 1
    return {'counters': dict(ctr), 'violations': V, 'samples': [], 'outcomes': []}


def run_shard(shard, tier):
    if shard[0] == 'DEEP':
        return run_deep(shard[1])
    return e1.run_shard_generic(shard, tier, ID, check_case, variants=('used',))


def main(tier):
    return e1.main_e1(__import__(__name__, fromlist=['x']), tier)


def replay(v):
    if v['case'].get('family', '').startswith('ordinal') and 'tag' not in v['case']:
        return run_deep(v['case']['k'])['violations']
    return e1.replay_e1(__import__(__name__, fromlist=['x']), v)
