"""C04 All three concept generators agree on the set of concepts.

clause -> what is compared
  each generator complete+sound   set of (extent members, intent members) == R1 concept set
  exactly once                    no repeats in the emitted sequence
  wrappers                        get_concepts: list of Concept named tuples whose
                                  .objects/.properties/.index_sets() agree with the raw pair;
                                  iterconcepts: iterator of the same
Emission order is deliberately not compared.
"""

from .. import common, e1, space

ID = 'C04'
LEVEL = 'model_checking'
RULE = ('tables: S(12)/S(16)+4x5+5x4 ∪ F ∪ P ∪ W as in C03, two labelings; five producers per '
        'table (fast_generate_from, fcbo_dual, get_concepts, iterconcepts, context.lattice); '
        'non-trivial = lattice has > 2 concepts and is not a chain; distinct = distinct table')
ASSUMPTIONS = ['R1 concept set (three cross-checked enumerations)']
HITS = ('hit_canonicity_relevant',)
BUDGET = {'quick': 240, 'thorough': 3000}


def shards(tier):
    if tier == 'quick':
        return e1.std_shards(tier, with_p=True, with_big=True) + space.w_shards(sizes=(31, 65), kinds=('ordinal',))
    sh = e1.std_shards(tier, with_p=True, with_big=True, extra_thorough_shapes=((4, 5), (5, 4)))
    return sh + [s for s in space.w_shards() if s not in sh] + [('W', 'ordinal', 1200)]


def check_case(case, ctr):
    from concepts import algorithms
    V = []
    ref, ctx = case.ref, case.ctx
    exp = {(case.olab(e), case.plab(i)) for e, i in ref.concepts}

    def bad(clause, producer, got):
        V.append(common.violation(ID, clause, case.ident(producer=producer),
                                  sorted(exp), sorted(got),
                                  repro=case.py_ctx() + 'from concepts import algorithms\n'
                                  f'print(list(algorithms.{producer}(c)))\n'))

    producers = [
        ('fast_generate_from', lambda: [(e.members(), i.members())
                                        for e, i in algorithms.fast_generate_from(ctx)]),
        ('fcbo_dual', lambda: [(e.members(), i.members()) for e, i in algorithms.fcbo_dual(ctx)]),
        ('iterconcepts', lambda: [(c.extent.members(), c.intent.members())
                                  for c in algorithms.iterconcepts(ctx)]),
        ('get_concepts', lambda: [(c.extent.members(), c.intent.members())
                                  for c in algorithms.get_concepts(ctx)]),
        ('lattice', lambda: [(c.extent, c.intent) for c in ctx.lattice]),
    ]
    for name, fn in producers:
        got = fn()
        ctr['calls'] += 1
        if len(got) != len(set(got)):
            bad('exactly-once', name, got)
        if set(got) != exp:
            bad('concept-set', name, got)
    if V:
        return V
    # a returned list is the caller's: changing it must not change a later answer
    first = algorithms.get_concepts(ctx)
    if isinstance(first, list):
        del first[:1]
        first.extend(first[:1])
        again = [(c.extent.members(), c.intent.members()) for c in algorithms.get_concepts(ctx)]
        ctr['calls'] += 1
        if len(again) != len(set(again)) or set(again) != exp:
            bad('concept-set', 'get_concepts-after-mutating-earlier-result', again)
            return V
    cl = algorithms.get_concepts(ctx)
    if not isinstance(cl, list):
        bad('get_concepts-is-list', 'get_concepts', [])
    for c in cl:
        e, i = c
        if (c.objects != e.members() or c.properties != i.members()
                or c.index_sets() != (case.opos(e.members()), case.ppos(i.members()))
                or c.index_sets(as_set=True) != (frozenset(case.opos(e.members())),
                                                 frozenset(case.ppos(i.members())))
                or c.n_objects != len(e.members()) or c.n_properties != len(i.members())):
            bad('concept-namedtuple', 'get_concepts', [])
            break
    # closure adds a lower-numbered attribute somewhere: the canonicity test matters
    if any(min(ref.closure_props([j]) or [j]) < j for j in range(case.m)):
        ctr['hit_canonicity_relevant'] += 1
    return V


def run_shard(shard, tier):
    return e1.run_shard_generic(shard, tier, ID, check_case)


def main(tier):
    return e1.main_e1(__import__(__name__, fromlist=['x']), tier)


def replay(v):
    return e1.replay_e1(__import__(__name__, fromlist=['x']), v)
