"""C02 Concept lookup returns the least formal concept containing the query.

clause -> what is compared
  context[A] == (A'', A')          both sides as label sets vs R1, no repeats in the tuples
  context[B] == (B', B'')          same for non-empty property collections
  formal concept                   returned pair checked by R1 derivation
  contains query / least           query inside; inside every R1 concept containing the query (search)
  extensive, monotone, idempotent  on the *returned* closures for all subset pairs (axes <= 6)
  lattice[A], lattice[B], lattice(B)   `is` the member of list(lattice) with that extent
  lattice[i]                       `is` list(lattice)[i] for every valid i >= 0
  lattice[()]                      `is` the member whose extent is all objects
"""

from .. import common, e1, space
from ..refmodel import powerset
from .C01 import arg_sets

ID = 'C02'
LEVEL = 'model_checking'
RULE = ('tables: S(12)/S(16) ∪ F, two labelings (quick tier: the second one on tables <= 9 cells and on the structured strata); per table every non-empty subset of objects and '
        'of properties (axis <= 8, else singletons/pairs/complements) through context[...], '
        'lattice[...], lattice(...), every integer index; non-trivial = lattice has > 2 concepts '
        'and is not a chain; distinct = distinct table')
ASSUMPTIONS = ['R1 closure and least-concept search are the definitions',
               'object and property labels are disjoint (required by Context)']
HITS = ('hit_reused_query_object', 'hit_closure_adds', 'hit_nonempty_bottom', 'hit_nonempty_top_intent', 'hit_sibling_schedule')
BUDGET = {'quick': 240, 'thorough': 3000}


def shards(tier):
    return e1.std_shards(tier, with_p=True, with_big=True, with_hist=True)


def light_args(length):
    """Query sets: every subset up to 8 members; for longer axes the empty set, the
    singletons at the word boundaries and at both ends, their pairs, the full set
    and the complements of those singletons (C01 explores the derivation operators
    on wide tables in depth; here the lookup on top of them is what is judged)."""
    if length <= 8:
        return arg_sets(length)
    from .C01 import BOUNDARY
    import itertools
    inter = sorted({p for p in BOUNDARY if p < length} | {length - 1, length - 2, length // 2})
    if length <= 20:
        inter = list(range(length))
    full = tuple(range(length))
    out = [()] + [(i,) for i in inter] + list(itertools.combinations(inter[:4] + inter[-4:], 2)) \
        + [full] + [tuple(x for x in full if x != i) for i in inter[:3] + inter[-3:]]
    seen, res = set(), []
    for a in out:
        if a not in seen:
            seen.add(a)
            res.append(a)
    return res


def check_case(case, ctr):
    V = []
    ref, ctx = case.ref, case.ctx
    al = case.align()
    if al is None:
        return [e1.misaligned(ID, case)]
    lat = case.lat
    concepts = ref.concepts

    def bad(clause, q, exp, got):
        V.append(common.violation(ID, clause, case.ident(query=list(q)), exp, got,
                                  repro=case.py_ctx() + f'print(c[{tuple(q)!r}])  # expected {exp!r}\n'))

    closures = {'o': {}, 'p': {}}
    # ONE list / set object refilled in place between consecutive calls (nothing else in between)
    for holder, fill in (([], lambda h, names: h.__setitem__(slice(None), names)),
                         (set(), lambda h, names: (h.clear(), h.update(names)))):
        if case.labeling != 'asc' or case.variant not in ('fresh', 'used'):
            break       # one labeling; the lattice-route variants do not change the query path
        for route in ('context', 'lattice'):
            for axis, length, labs in (('o', case.n, case.objs), ('p', case.m, case.props)):
                if length > 8:
                    continue
                for arg in light_args(length):
                    if not arg:
                        continue
                    if axis == 'o':
                        e, i = ref.closure_objs(arg), ref.intent_of(arg)
                    else:
                        e, i = ref.extent_of(arg), ref.closure_props(arg)
                    names = [labs[x] for x in arg]
                    fill(holder, names)
                    ctr['calls'] += 1
                    ctr['hit_reused_query_object'] += 1
                    if route == 'context':
                        got = ctx[holder]
                        ok = (len(got) == 2 and frozenset(got[0]) == frozenset(case.olab(e))
                              and frozenset(got[1]) == frozenset(case.plab(i)))
                    else:
                        got = lat[holder]
                        ok = got is al[ref.index_of_extent(e)]
                    if not ok:
                        bad('query-object-refilled-in-place', names,
                            [case.olab(e), case.plab(i)], repr(got))
                        return V
    for axis, length, labs in (('o', case.n, case.objs), ('p', case.m, case.props)):
        for arg in light_args(length):
            if axis == 'o':
                e = ref.closure_objs(arg)
                i = ref.intent_of(arg)
            else:
                e = ref.extent_of(arg)
                i = ref.closure_props(arg)
            exp = (case.olab(e), case.plab(i))
            idx = ref.index_of_extent(e)
            q = tuple(labs[x] for x in arg)
            if arg:
                got = ctx[q]
                ctr['calls'] += 1
                # the query is a collection: repeats and order do not change it
                q2 = tuple(reversed(q)) * 2
                if len(q) > 2 and len(q) != length:
                    pass
                elif ctx[q2] != got or lat[q2] is not lat[q] or (axis == 'p' and lat(q2) is not lat(q)) \
                        or ctx[list(q)] != got or ctx[frozenset(q)] != got \
                        or lat[frozenset(q)] is not lat[q] or lat[dict.fromkeys(q).keys()] is not lat[q]:
                    bad('query-repeats-order', q2, got, ctx[q2])
                    return V
                else:
                    ctr['calls'] += 3
                if (len(got) != 2 or frozenset(got[0]) != frozenset(exp[0])
                        or frozenset(got[1]) != frozenset(exp[1])
                        or len(got[0]) != len(set(got[0])) or len(got[1]) != len(set(got[1]))):
                    bad('context-getitem', q, exp, got)
                    return V
                ge, gi = case.opos(got[0]), case.ppos(got[1])
                if not ref.is_concept(ge, gi):
                    bad('formal-concept', q, exp, got)
                side = set(ge) if axis == 'o' else set(gi)
                if not set(arg) <= side:
                    bad('contains-query', q, exp, got)
                k = 0 if axis == 'o' else 1
                for ce in concepts:
                    if set(arg) <= ce[k] and not side <= ce[k]:
                        bad('least', q, exp, got)
                        break
                closures[axis][arg] = frozenset(side)
                if len(side) > len(arg):
                    ctr['hit_closure_adds'] += 1
                got = lat[q]
                ctr['calls'] += 1
                if got is not al[idx]:
                    bad('lattice-getitem-identity', q, exp, repr(got))
                    return V
                if frozenset(got.extent) != frozenset(exp[0]) or frozenset(got.intent) != frozenset(exp[1]) \
                        or (tuple(got)[0], tuple(got)[1]) != (got.extent, got.intent):
                    bad('lattice-member-extent-intent', q, exp, [got.extent, got.intent])
                    return V
            if axis == 'p':
                got = lat(q)
                ctr['calls'] += 1
                if got is not al[idx]:
                    bad('lattice-call-identity', q, exp, repr(got))
                    return V
                # the same property collection as a one-shot iterable (iterator, generator, map)
                if len(q) <= 2 or len(q) == length:
                    ctr['calls'] += 3
                    for form, it in (('iterator', iter(q)), ('generator', (x for x in q)),
                                     ('map', map(str, q))):
                        try:
                            alt = lat(it)
                        except Exception as e_:
                            common.library_exception(ID, case.ident(), e_)
                            alt = e_
                        if alt is not got:
                            bad('lattice-call-one-shot-iterable-' + form, q, exp, repr(alt))
                            return V
    # closure laws on the values the library returned
    for axis, length in (('o', case.n), ('p', case.m)):
        if length > 6:
            continue
        cl = closures[axis]
        for a, ca in cl.items():
            if cl.get(tuple(sorted(ca)), ca) != ca:
                bad('idempotent', a, sorted(ca), sorted(cl[tuple(sorted(ca))]))
            sa = set(a)
            for b, cb in cl.items():
                if sa <= set(b) and not ca <= cb:
                    bad('monotone', a, None, [sorted(ca), sorted(cb)])
    # integer index, empty key
    members = list(lat)
    for i in range(len(members)):
        ctr['calls'] += 1
        if lat[i] is not members[i]:
            bad('lattice-int-index', [i], None, None)
    top = lat[()]
    if top is not al[ref.top] or top is not lat.supremum:
        bad('lattice-empty-key-is-top', [], None, repr(top))
    # interleaving: sibling contexts over the same labels with the complemented table
    if case.labeling == 'asc' and case.variant == 'fresh' and case.n * case.m <= 16 and not V:
        older, a, newer, iref = e1.sibling_schedule(case)
        ctr['hit_sibling_schedule'] += 1
        for c, r, name in ((a, ref, 'case-context'), (older, iref, 'older-sibling')):
            for i in range(case.n):
                ctr['calls'] += 1
                exp = (case.olab(r.closure_objs([i])), case.plab(r.intent_of([i])))
                if c[(case.objs[i],)] != exp:
                    bad('lookup-with-sibling-contexts', (case.objs[i],), exp, c[(case.objs[i],)])
                    break
            for j in range(case.m):
                ctr['calls'] += 1
                exp = (case.olab(r.extent_of([j])), case.plab(r.closure_props([j])))
                if c[(case.props[j],)] != exp:
                    bad('lookup-with-sibling-contexts', (case.props[j],), exp, c[(case.props[j],)])
                    break
        del older, a, newer
    if ref.closure_objs(()):
        ctr['hit_nonempty_bottom'] += 1
    if ref.intent_of(range(case.n)):
        ctr['hit_nonempty_top_intent'] += 1
    return V


def check_compound(rows, ctr):
    """Objects a, b, ab (, c): the key 'ab' given as a str is the collection {a, b}."""
    import concepts
    from ..refmodel import Ref
    V = []
    n = len(rows)
    objs = ('a', 'b', 'ab', 'c')[:n]
    props = tuple('xyzw'[:len(rows[0])])
    ctx = concepts.Context(objs, props, rows)
    lat = ctx.lattice
    ref = Ref(rows)
    for key, members in (('ab', (0, 1)), ('ba', (0, 1)), ('a', (0,)), ('b', (1,))):
        exp = (tuple(objs[i] for i in sorted(ref.closure_objs(members))),
               tuple(props[j] for j in sorted(ref.intent_of(members))))
        ctr['calls'] += 2
        got = ctx[key]
        m = lat[key]
        if got != exp or (m.extent, m.intent) != exp or ctx[tuple(key)] != exp:
            V.append(common.violation(ID, 'context-getitem', {'objects': list(objs), 'rows': rows,
                                                            'query': key}, exp, got))
            break
    return V


def run_shard(shard, tier):
    # quick tier: the second (descending) labeling on tables up to 9 cells and on the structured
    # strata only - a lookup does not compare labels, label order is C06's subject
    both = tier != 'quick' or shard[0] != 'S' or shard[1] * shard[2] <= 9
    res = e1.run_shard_generic(shard, tier, ID, check_case, both_labelings=both,
                               variants=('pickle', 'fromdict-raw', 'used'))
    if shard[0] == 'S' and shard[1] * shard[2] <= 9:
        import collections
        from .. import space
        ctr = collections.Counter()
        for n, m, rows, tag in space.tables_of_shard(shard):
            case = e1.Case(rows, tag, space.SPACE)
            try:
                vs = check_case(case, ctr)
                if 3 <= n <= 4 and m <= 4:
                    vs += check_compound([tuple(r) for r in rows], ctr)
            except e1.ForeignLabel as e:
                vs = [common.violation(ID, 'foreign-label', case.ident(), None, str(e))]
            except Exception as e:
                vs = [common.library_exception(ID, case.ident(), e)]
            e1.track(case, vs, tier)
            ctr['evaluations'] += 1
            res['violations'].extend(vs[:2])
        for k_, v_ in ctr.items():
            res['counters'][k_] = res['counters'].get(k_, 0) + v_
    return res


def main(tier):
    return e1.main_e1(__import__(__name__, fromlist=['x']), tier)


def replay(v):
    c = v['case']
    if 'rows' in c and 'tag' not in c:
        import collections
        try:
            return check_compound([tuple(bool(b) for b in r) for r in c['rows']],
                                  collections.Counter())
        except Exception as e:
            return [common.library_exception(ID, c, e)]
    return e1.replay_e1(__import__(__name__, fromlist=['x']), v)
