"""C18 attributes() enumerates exactly the generating property sets, shortest first.

clause -> what is compared
  attributes(), non-empty extent   list == [B subset of intent, in (size, positions) order, with
                                   R1 B' == extent]  (exact sequence => each once, ordered)
  attributes(), empty extent       == [full intent]
  minimal()                        == first yielded set for every concept that is not the infimum;
                                   == full intent for the infimum (the statement's carve-out)
  regenerates                      lattice(B) `is` the concept, for every yielded B
"""

import itertools

from .. import common, e1

ID = 'C18'
LEVEL = 'model_checking'
RULE = ('tables: S(12)/S(16) ∪ F restricted to <= 10 properties (the oracle walks the powerset of '
        'each intent), two labelings; every concept; non-trivial = lattice has > 2 concepts and is '
        'not a chain; distinct = distinct table')
ASSUMPTIONS = ['order = (number of properties, property positions ascending)']
HITS = ('hit_several_minimal_generators', 'hit_nonempty_bottom', 'hit_empty_extent')
BUDGET = {'quick': 240, 'thorough': 3000}


def shards(tier):
    sh = [s for s in e1.std_shards(tier, with_p=True, with_hist=True)
          if not (s[0] == 'S' and s[2] > 10) and not (s[0] == 'F' and s[3] == 'interordinal'
                                                      and s[1] > 5)]
    # wide tables: only paddings that keep the intents small (blank / copy columns)
    return [s for s in sh if s[0] != 'P' or s[4] in ('blank', 'copy')]


def check_case(case, ctr):
    V = []
    ref = case.ref
    al = case.align()
    if al is None:
        return [e1.misaligned(ID, case)]
    lat = case.lat

    def bad(clause, exp, got, **kw):
        V.append(common.violation(ID, clause, case.ident(**kw), exp, got,
                                  repro=case.py_ctx() + f'x = list(c.lattice)[{kw.get("concept")}]\n'
                                  'print(list(x.attributes()), x.minimal())\n'))

    # a second lattice of the same table on which minimal() is asked FIRST
    small = all(len(it) <= 12 or not ex for ex, it in ref.concepts)
    first_min = [c.minimal() for c in case.fresh_ctx().lattice] \
        if case.variant == 'fresh' and small else None
    other = list(case.fresh_ctx().lattice) if case.variant == 'fresh' and small else None
    if other is not None:
        for c in other:
            c.minimal()
    for i, c in enumerate(al):
        extent, intent = ref.concepts[i]
        if len(intent) > 12 and extent:
            ctr['skipped_large_intents'] += 1     # the oracle walks the powerset of the intent
            continue
        if extent:
            gens = [b for r in range(len(intent) + 1)
                    for b in itertools.combinations(sorted(intent), r)
                    if ref.extent_of(b) == extent]
        else:
            gens = [tuple(sorted(intent))]
            ctr['hit_empty_extent'] += 1
        exp = [case.plab(b) for b in gens]
        got = list(c.attributes())
        ctr['calls'] += 2
        if got != exp:
            bad('attributes', exp, got, concept=i)
            continue
        if other is not None and len(other) == len(al):
            ctr['calls'] += 4
            # on this second lattice the FIRST enumeration is abandoned after one item, the
            # next two run in lock-step, and only then a complete one follows
            oc = other[i]
            it = oc.attributes()
            head = next(it, None)
            del it
            it1, it2 = oc.attributes(), oc.attributes()
            zipped = [x for pair in zip(it1, it2) for x in pair]
            if head != exp[0] or zipped != [x for x in exp for _ in (0, 1)]:
                bad('attributes-after-partial-enumeration', exp, [head, zipped], concept=i)
            if list(other[i].attributes()) != exp or list(other[i].attributes()) != exp:
                bad('attributes-after-minimal', exp, list(other[i].attributes()), concept=i)
            if first_min[i] != (case.plab(intent) if i == ref.bottom else exp[0]):
                bad('minimal-first', exp[0], first_min[i], concept=i)
        if list(c.attributes()) != exp:
            bad('attributes-repeatable', exp, list(c.attributes()), concept=i)
        # an abandoned partial enumeration and two enumerations in lock-step
        it = c.attributes()
        head = next(it, None)
        del it
        it1, it2 = c.attributes(), c.attributes()
        zipped = [x for pair in zip(it1, it2) for x in pair]
        ctr['calls'] += 3
        if head != exp[0] or zipped != [x for x in exp for _ in (0, 1)] \
                or list(c.attributes()) != exp:
            bad('attributes-after-partial-enumeration', exp, [head, zipped, list(c.attributes())],
                concept=i)
        mn = c.minimal()
        if i == ref.bottom:
            if mn != case.plab(intent):
                bad('minimal-infimum', case.plab(intent), mn, concept=i)
            if extent:
                ctr['hit_nonempty_bottom'] += 1
        elif mn != exp[0]:
            bad('minimal', exp[0], mn, concept=i)
        for b in got:
            ctr['calls'] += 1
            if lat(b) is not c:
                bad('regenerates', i, case.pos(lat(b)), concept=i, generator=list(b))
                break
        if len(gens) > 1 and len(gens[0]) == len(gens[1]):
            ctr['hit_several_minimal_generators'] += 1
    return V


def run_shard(shard, tier):
    return e1.run_shard_generic(shard, tier, ID, check_case, variants=('pickle', 'fromdict-raw', 'used'))


def main(tier):
    return e1.main_e1(__import__(__name__, fromlist=['x']), tier)


def replay(v):
    return e1.replay_e1(__import__(__name__, fromlist=['x']), v)
