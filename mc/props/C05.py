"""C05 Neighbor links are exactly the covering relation (Hasse diagram).

clause -> what is compared
  upper_neighbors            set of members (by identity) == R1 upper covers by search; no repeats
  lower_neighbors            set == R1 lower covers; no repeats
  converse                   d in c.upper_neighbors <=> c in d.lower_neighbors (on the real links)
  context.neighbors(A)       set of (extent, intent) pairs == upper covers of (A'', A'),
                             no repeats; raw=True form denotes the same pairs
"""

from .. import common, e1
from .C01 import arg_sets

ID = 'C05'
LEVEL = 'model_checking'
RULE = ('tables: S(12)/S(16) ∪ F, two labelings; every concept; Context.neighbors for every '
        'object subset (axis <= 8, else singletons/pairs/complements); non-trivial = lattice has '
        '> 2 concepts and is not a chain; distinct = distinct table')
ASSUMPTIONS = ['R1 covers are found by search in the inclusion order (x<y, nothing between)']
HITS = ('hit_swallow',)
BUDGET = {'quick': 240, 'thorough': 3000}


def shards(tier):
    return e1.std_shards(tier, with_p=True, with_big=True, with_hist=True)


def check_case(case, ctr):
    V = []
    ref, ctx = case.ref, case.ctx
    al = case.align()
    if al is None:
        return [e1.misaligned(ID, case)]
    pos = case.pos

    def bad(clause, exp, got, **kw):
        V.append(common.violation(ID, clause, case.ident(**kw), exp, got,
                                  repro=case.py_ctx() + 'for x in c.lattice:\n'
                                  '    print(x, x.upper_neighbors, x.lower_neighbors)\n'))

    ups, lows = {}, {}
    for k, c in enumerate(al):
        ctr['calls'] += 2
        u = [pos(x) for x in c.upper_neighbors]
        l = [pos(x) for x in c.lower_neighbors]
        if [pos(x) for x in c.upper_neighbors] != u or [pos(x) for x in c.lower_neighbors] != l \
                or len(list(c.upper_neighbors)) != len(u) or len(list(c.lower_neighbors)) != len(l):
            bad('neighbors-re-readable', [u, l], 'a second read gives something else', concept=k)
        ups[k], lows[k] = u, l
        eu, el = ref.upper_covers(k), ref.lower_covers(k)
        if None in u or len(u) != len(set(u)) or set(u) != set(eu):
            bad('upper-neighbors', sorted(eu), u, concept=k)
        if None in l or len(l) != len(set(l)) or set(l) != set(el):
            bad('lower-neighbors', sorted(el), l, concept=k)
        if not isinstance(c.upper_neighbors, tuple) or not isinstance(c.lower_neighbors, tuple):
            pass  # container type is not part of the statement
    for k in ups:
        for d in ups[k]:
            if d is not None and k not in lows.get(d, ()):
                bad('converse', None, [k, d])
        for d in lows[k]:
            if d is not None and k not in ups.get(d, ()):
                bad('converse', None, [d, k])
    # Context.neighbors
    args = arg_sets(case.n)
    if case.n > 20:      # wide tables: empty set, singletons at the word boundaries, full set
        args = [a for a in args if len(a) <= 1 or len(a) == case.n][:40]
    for arg in args:
        q = [case.objs[i] for i in arg]
        e = ref.closure_objs(arg)
        k = ref.index_of_extent(e)
        exp = {(case.olab(ref.concepts[j][0]), case.plab(ref.concepts[j][1]))
               for j in ref.upper_covers(k)}
        scratch = ctx.neighbors(q)
        del scratch[:]                      # a returned list is the caller's to change
        scratch = ctx.neighbors(q, True)
        del scratch[:]
        got = ctx.neighbors(q)
        raw = ctx.neighbors(q, True)        # raw is the documented second positional parameter
        ctr['calls'] += 3
        gotset = {(tuple(a), tuple(b)) for a, b in got}
        rawset = {(a.members(), b.members()) for a, b in raw}
        if len(got) != len(gotset) or {(frozenset(a), frozenset(b)) for a, b in gotset} != \
                {(frozenset(a), frozenset(b)) for a, b in exp}:
            bad('context-neighbors', sorted(exp), sorted(gotset), query=q)
            break
        if rawset != gotset or len(raw) != len(got):
            bad('context-neighbors-raw', sorted(gotset), sorted(rawset), query=q)
            break
        # other spellings of the same object set: repeats, other order, one-shot iterables, sets
        if q and case.n <= 20 and case.labeling == 'asc' and case.variant in ('fresh', 'used'):
            forms = (('repeated', q + q[::-1]), ('doubled-first', [q[0]] + q),
                     ('generator', (x for x in q)), ('iterator', iter(tuple(reversed(q)))),
                     ('frozenset', frozenset(q)), ('dict-keys', dict.fromkeys(q).keys()))
            stop = False
            for fname, fq in forms:
                try:
                    alt = ctx.neighbors(fq)
                    altset = {(tuple(a), tuple(b)) for a, b in alt}
                    n_alt = len(alt)
                except Exception as e_:
                    common.library_exception(ID, case.ident(), e_)   # HarnessError unless from the library
                    altset, n_alt = repr(e_), -1
                ctr['calls'] += 1
                if altset != gotset or n_alt != len(got):
                    bad('context-neighbors-argument-form', sorted(gotset),
                        altset if isinstance(altset, str) else sorted(altset), query=q, form=fname)
                    stop = True
                    break
            if stop:
                break
    # clause counter: a candidate closure swallowed a not-yet-tried object
    for e, _ in (ref.concepts if case.n <= 20 else ()):
        rest = [g for g in range(case.n) if g not in e]
        for g in rest:
            cl = ref.closure_objs(set(e) | {g})
            if any(h > g and h in cl for h in rest):
                ctr['hit_swallow'] += 1
                break
        else:
            continue
        break
    return V


def check_char_case(case, ctr):
    """One-character labels: a str is a collection of object labels."""
    from ..refmodel import powerset
    V = []
    ref, ctx = case.ref, case.ctx
    for arg in powerset(range(case.n)):
        s = ''.join(case.objs[i] for i in reversed(arg))
        k = ref.index_of_extent(ref.closure_objs(arg))
        exp = {(case.olab(ref.concepts[j][0]), case.plab(ref.concepts[j][1]))
               for j in ref.upper_covers(k)}
        got = ctx.neighbors(s)
        ctr['calls'] += 1
        if {(tuple(a), tuple(b)) for a, b in got} != exp or len(got) != len(exp):
            V.append(common.violation(ID, 'context-neighbors', case.ident(query=s, form='str'),
                                      sorted(exp), got))
            break
    return V


def run_shard(shard, tier):
    res = e1.run_shard_generic(shard, tier, ID, check_case, variants=('pickle', 'fromdict-raw', 'used'),
                               wide_variants=('pickle', 'fromdict-raw'),
                               both_labelings=shard[0] != 'P')
    if shard[0] == 'S' and shard[1] * shard[2] <= 9:
        import collections
        from .. import space
        ctr = collections.Counter()
        for n, m, rows, tag in space.tables_of_shard(shard):
            case = e1.Case(rows, tag, space.CHAR)
            try:
                vs = check_char_case(case, ctr)
            except Exception as e:
                vs = [common.library_exception(ID, case.ident(), e)]
            e1.track(case, vs, tier)
            ctr['evaluations'] += 1
            res['violations'].extend(vs[:2])
        for k_, v_ in ctr.items():
            res['counters'][k_] = res['counters'].get(k_, 0) + v_
    return res


def main(tier):
    return e1.main_e1(__import__(__name__, fromlist=['x']), tier)


def replay(v):
    if v['case'].get('labeling') == 'char':
        import collections
        case = e1.case_from_ident(v['case'])
        try:
            return check_char_case(case, collections.Counter())
        except Exception as e:
            return [common.library_exception(ID, v['case'], e)]
    return e1.replay_e1(__import__(__name__, fromlist=['x']), v)
