"""C14 Derived definitions are correct and unaliased; Context<->Definition are inverse.

clause -> what is compared
  union / intersection / | / &   result triple == R2 (cell-wise or/and; an exception iff a shared cell
                                 differs and conflicts are not ignored; left names then new right
                                 names / left order restricted), for ALL ordered pairs of definitions
                                 of the universe x ignore_conflicts; operands unchanged
  copy, transposed/-, inverted/~ result triple == R2; involutions --d == d, ~~d == d
  take                           every (objects selection or None) x (properties selection or None)
                                 x reorder: sub-table in original resp. requested order
  new object / unaliased         result `is not` a source; then EVERY single follow-up edit of the
                                 C13 alphabet applied to each source and to the result in turn: the
                                 other objects still show the triple they showed before and are still
                                 == to a snapshot taken before (the whole (sources, result) group is
                                 deep-copied together before each edit, which preserves any sharing)
  Context <-> Definition         Context(*d).definition() == d, Context(*c.definition()) == c,
                                 c1 == c2 <=> triples equal (and != the negation), shape, fill_ratio,
                                 tostring(), crc32() agree between a context and its definition
"""

import collections
import copy
import itertools

from .. import common, e1, env, explore, space, tablemodel as tm

ID = 'C14'
ENGINE = 'E2-histspace'
LEVEL = 'model_checking'
TECHNIQUE = ('exhaustive enumeration of all ordered pairs of definitions over a bounded name '
             'universe x all derivation operations, followed by a one-step explicit-state '
             'expansion (every single follow-up edit) to expose shared mutable state; model: R2')
RULE = ('states = (operands, operation, result) groups over all definitions of a 2x2 name universe '
        '(thorough: 3x2 for the results); transitions = derivation calls + follow-up edits; '
        'context part: every table of S(12)/S(16); non-trivial = operand pairs with overlapping '
        'names and at least one true cell each')
ASSUMPTIONS = ['R2 (mc/tablemodel.py): union = left names then new right names, cell-wise or; '
               'intersection = left order restricted, cell-wise and; conflict = shared cell differs',
               'take() with unknown names is not specified and not called',
               'aliasing is judged observably: an edit of one object must not change what another shows']
HITS = ('hit_conflict_rejected', 'hit_conflict_ignored', 'hit_overlap', 'hit_reorder_differs')
BUDGET = {'quick': 300, 'thorough': 3000}

L = env.HashLabel
UNI = {'quick': (('a', 'b'), ('x', 'y')), 'thorough': (('a', 'b'), ('x', 'y'))}
UNI_RESULTS_ONLY = {'quick': None, 'thorough': (('a', 'b', 'c'), ('x', 'y'))}

REDUCED_EDITS = None  # filled lazily

# derivations as transitions of the C13 search (explore.OBSERVERS): every reachable internal
# state of a definition over these universes x every derivation, judged by R2
BFS_UNIVERSES = {'quick': ((('a', 'b', 'c'), ('x', 'y')), (('a', 'b'), ('x', 'y', 'z'))),
                 'thorough': ((('a', 'b', 'c'), ('x', 'y')), (('a', 'b'), ('x', 'y', 'z')),
                              (('a', 'b', 'c'), ('a', 'y', 'z')))}


def run_bfs(shard, tier):
    """Explicit-state search over the real Definition (engine E2, one process, fixed order)
    with the derivations copy / transposed / inverted / take / iteration / text as
    transitions: reported here are the derivation clauses; the mutator clauses are C13's."""
    universe = BFS_UNIVERSES[tier][shard[1]]
    names = sorted(set(universe[0]) | set(universe[1]))
    ranks = {n: (i if shard[1] % 2 == 0 else len(names) - 1 - i) for i, n in enumerate(names)}
    r = explore.bfs(universe, (), ranks, ID, serial=True, budget_s=BUDGET[tier])
    V = []
    for x in r['violations']:
        if x['clause'].startswith('observe-') or x['clause'].startswith('read-only-call'):
            case = {'universe': [list(universe[0]), list(universe[1])], 'ranks': ranks,
                    'history': explore.history_of(r['seen'], x['parent']), 'op': x['op']}
            V.append(common.violation(ID, x['clause'], case, x['expected'], x['observed']))
    ctr = {'tables': r['states'], 'calls': r['transitions'],
           'hit_bfs_observations': r['counters'].get('observations', 0),
           'nontrivial': r['states'], 'evaluations': r['transitions']}
    return {'counters': ctr, 'violations': V[:3], 'samples': [], 'outcomes': []}


def shards(tier):
    sh = []
    n = len(list(tm.all_states(*UNI[tier])))
    for i in range(0, n, 2):
        sh.append(('D', 'full', i, min(n, i + 2)))
    if UNI_RESULTS_ONLY[tier]:
        n2 = len(list(tm.all_states(*UNI_RESULTS_ONLY[tier])))
        for i in range(0, n2, 20):
            sh.append(('D', 'results', i, min(n2, i + 20)))
    sh += [s for s in e1.std_shards(tier, with_f=False, with_big=True)]
    sh.append(('EQ',))
    for ui in range(len(BFS_UNIVERSES[tier])):
        sh.insert(0, ('BFS', ui))
    sh.append(('BIGDEF',))
    sh.append(('SPECIAL',))
    return sh


# ---------------------------------------------------------------- derived definitions

def edits_for(state, universe, reduced):
    ops = [op for op in tm.alphabet(state, universe[0], universe[1], ())]
    if not reduced:
        return ops
    keep, seen = [], set()
    for op in ops:           # one representative per (operation, accepted/rejected/changes) class
        try:
            new, _ = tm.apply(state, op)
            cls = (op[0], 'same' if new == state else 'changes')
        except tm.Reject:
            cls = (op[0], 'reject')
        except tm.Open:
            continue
        if cls not in seen:
            seen.add(cls)
            keep.append(op)
    return keep


def check_group(V, ctr, universe, sources, result_real, source_reals, exp_state, clause, info,
                reduced):
    """Result triple vs model, newness, and the one-step follow-up expansion."""
    def bad(cl, exp, got, **kw):
        if len(V) < 6:
            d = dict(info)
            d.update(kw)
            V.append(common.violation(ID, cl, d, exp, got))

    got = explore.visible(result_real)
    if got != tm.triple(exp_state):
        bad(clause, tm.triple(exp_state), got)
        return
    for k, (s, r) in enumerate(zip(sources, source_reals)):
        if explore.visible(r) != tm.triple(s):
            bad('operand-changed', tm.triple(s), explore.visible(r), operand=k)
            return
        if result_real is r:
            bad('result-is-new-object', 'a new definition', 'the operand itself', operand=k)
            return
    group = list(source_reals) + [result_real]
    states = list(sources) + [exp_state]
    snaps = copy.deepcopy(group)    # snapshots taken before any edit
    for target in range(len(group)):
        for op in edits_for(states[target], universe, reduced):
            g2 = copy.deepcopy(group)
            before = [explore.visible(x) for x in g2]
            try:
                explore.apply_real(g2[target], op)
                raised = False
            except Exception:
                raised = True
            ctr['calls'] += 1
            ctr['followup_edits'] += 1
            # the edited object (a result is a definition like any other) follows the model
            try:
                want = tm.triple(tm.apply(states[target], op)[0])
                rejected = False
            except tm.Reject:
                want, rejected = tm.triple(states[target]), True
            except tm.Open:
                want = None
            if want is not None:
                got_t = explore.visible(g2[target])
                if got_t != want or (rejected and not raised) or (not rejected and raised):
                    bad('edit-after-derivation', want, got_t,
                        edited=('result' if target == len(group) - 1 else f'operand{target}'),
                        edit=explore.enc_op(op))
                    return
            for k in range(len(g2)):
                if k == target:
                    continue
                if explore.visible(g2[k]) != before[k] or not (g2[k] == snaps[k]):
                    bad('unaliased', before[k], explore.visible(g2[k]),
                        edited=('result' if target == len(group) - 1 else f'operand{target}'),
                        edit=explore.enc_op(op),
                        changed=('result' if k == len(group) - 1 else f'operand{k}'))
                    return


def run_derived(shard, tier):
    _, mode, lo, hi = shard
    universe = UNI[tier] if mode == 'full' else UNI_RESULTS_ONLY[tier]
    states = list(tm.all_states(*universe))
    ctr = collections.Counter()
    V = []
    samples = []
    names = sorted(set(universe[0]) | set(universe[1]))
    env.HashLabel.ranks = {n: i for i, n in enumerate(names)}
    full = mode == 'full'
    for si in range(lo, hi):
        s = states[si]
        ctr['tables'] += 1
        if full:
            # unary derivations
            unary = [('copy', lambda d: d.copy(), s),
                     ('transposed', lambda d: d.transposed(), tm.transposed(s)),
                     ('neg', lambda d: -d, tm.transposed(s)),
                     ('inverted', lambda d: d.inverted(), tm.inverted(s)),
                     ('invert', lambda d: ~d, tm.inverted(s)),
                     ('double-transposed', lambda d: d.transposed().transposed(), s),
                     ('double-inverted', lambda d: (~(~d)), s)]
            for name, fn, exp in unary:
                real = explore.make_real(s)
                res = fn(real)
                ctr['calls'] += 1
                check_group(V, ctr, universe, [s], res, [real], exp, f'{name}-result',
                            {'operation': name, 'operand': _tj(s)}, reduced=False)
            osel = [None] + [sel for sel in tm.ordered_subsets(s[0])]
            psel = [None] + [sel for sel in tm.ordered_subsets(s[1])]
            # selections that repeat a name (same length as / longer than the axis)
            osel += [sel + sel[:1] for sel in tm.ordered_subsets(s[0]) if sel] + \
                    [sel[:1] * len(s[0]) for sel in [s[0]] if len(s[0]) > 1]
            psel += [sel + sel[:1] for sel in tm.ordered_subsets(s[1]) if sel] + \
                    [sel[:1] * len(s[1]) for sel in [s[1]] if len(s[1]) > 1]
            for o, p, reorder in itertools.product(osel, psel, (False, True)):
                exp = tm.take(s, o, p, reorder)
                real = explore.make_real(s)
                kw = {}
                if o is not None:
                    kw['objects'] = [L(x) for x in o]
                if p is not None:
                    kw['properties'] = [L(x) for x in p]
                res = real.take(reorder=reorder, **kw)
                ctr['calls'] += 1
                if reorder and exp != tm.take(s, o, p, False):
                    ctr['hit_reorder_differs'] += 1
                check_group(V, ctr, universe, [s], res, [real], exp, 'take-result',
                            {'operation': 'take', 'operand': _tj(s), 'objects': o,
                             'properties': p, 'reorder': reorder}, reduced=True)
        # binary derivations: all ordered pairs
        for ti, t in enumerate(states):
            overlap = (set(s[0]) & set(t[0])) and (set(s[1]) & set(t[1]))
            if overlap:
                ctr['hit_overlap'] += 1
                if s[2] and t[2]:
                    ctr['nontrivial'] += 1
            conf = bool(tm.conflicts(s, t))
            forms = [('union', lambda a, b: a.union(b), tm.union, False),
                     ('union-ignore', lambda a, b: a.union(b, ignore_conflicts=True), tm.union, True),
                     ('or', lambda a, b: a | b, tm.union, False),
                     ('intersection', lambda a, b: a.intersection(b), tm.intersection, False),
                     ('intersection-ignore', lambda a, b: a.intersection(b, ignore_conflicts=True),
                      tm.intersection, True),
                     ('and', lambda a, b: a & b, tm.intersection, False)]
            for name, fn, mfn, ign in forms:
                a, b = explore.make_real(s), explore.make_real(t)
                info = {'operation': name, 'left': _tj(s), 'right': _tj(t)}
                ctr['calls'] += 1
                try:
                    exp = mfn(s, t, ign)
                    rejected = False
                except tm.Reject:
                    rejected = True
                try:
                    res = fn(a, b)
                    err = None
                except Exception as e:
                    res, err = None, e
                if rejected:
                    ctr['hit_conflict_rejected'] += 1
                    if err is None:
                        if len(V) < 6:
                            V.append(common.violation(ID, 'conflict-raises', info,
                                                      'an exception (conflicting shared cells)',
                                                      'returned'))
                    elif explore.visible(a) != tm.triple(s) or explore.visible(b) != tm.triple(t):
                        V.append(common.violation(ID, 'operand-changed', info, None, None))
                    continue
                if err is not None:
                    if len(V) < 6:
                        V.append(common.violation(ID, f'{name}-result', info, tm.triple(exp),
                                                  f'{type(err).__name__}: {err}'))
                    continue
                if conf and ign:
                    ctr['hit_conflict_ignored'] += 1
                if full and (tier != 'quick' or ign):
                    check_group(V, ctr, universe, [s, t], res, [a, b], exp, f'{name}-result',
                                info, reduced=True)
                elif explore.visible(res) != tm.triple(exp):
                    V.append(common.violation(ID, f'{name}-result', info, tm.triple(exp),
                                              explore.visible(res)))
            if len(V) >= 6:
                break
        if len(samples) < 1 and s[2] and len(s[0]) == 2:
            samples.append({'operand': _tj(s), 'operations': 'copy/transposed/inverted/take/'
                            'union/intersection with every definition of the universe'})
        if len(V) >= 6:
            break
    ctr['evaluations'] = ctr['calls']
    return {'counters': dict(ctr), 'violations': V, 'samples': samples, 'outcomes': []}


def _tj(s):
    t = tm.triple(s)
    return [list(t[0]), list(t[1]), [[int(b) for b in r] for r in t[2]]]


# ---------------------------------------------------------------- Context <-> Definition

def check_case(case, ctr):
    import concepts
    V = []
    c = case.ctx

    def bad(clause, exp, got):
        V.append(common.violation(ID, clause, case.ident(), exp, got, repro=case.py_ctx()))

    d = c.definition()
    ctr['calls'] += 4
    trip = (case.objs, case.props, case.rows)
    # whatever containers the context and the definition hand out are the caller's to change:
    # a second definition() / a second read must still show the table
    for owner in (c, d):
        for handed in (owner.bools, owner.objects, owner.properties):
            if isinstance(handed, list):
                handed.reverse()
                handed.append(('\x00junk',))
    d_again = c.definition()
    if (tuple(d_again.objects), tuple(d_again.properties), [tuple(r) for r in d_again.bools]) != trip:
        bad('context-definition-triple-after-editing-handed-out-containers', trip,
            [d_again.objects, d_again.properties, d_again.bools])
    if (tuple(d.objects), tuple(d.properties), [tuple(r) for r in d.bools]) != trip:
        bad('context-definition-triple', trip, [d.objects, d.properties, d.bools])
    c2 = concepts.Context(*d)
    if not (c2 == c) or (c2 != c):
        bad('Context(*c.definition())==c', True, False)
    d0 = concepts.Definition(case.objs, case.props, case.rows)
    if not (concepts.Context(*d0).definition() == d0):
        bad('Context(*d).definition()==d', True, False)
    if tuple(c.shape) != (case.n, case.m) or tuple(d.shape) != tuple(c.shape):
        bad('shape', [case.n, case.m], [tuple(c.shape), tuple(d.shape)])
    import fractions
    fr = fractions.Fraction(sum(sum(r) for r in case.rows), case.n * case.m)
    if c.fill_ratio != fr or d.fill_ratio != fr:
        bad('fill_ratio', str(fr), [str(c.fill_ratio), str(d.fill_ratio)])
    if c.tostring() != d.tostring() or str(d) != d.tostring():
        bad('tostring', c.tostring(), d.tostring())
    if c.crc32() != d.crc32():
        bad('crc32', c.crc32(), d.crc32())
    for enc in ('utf-16', 'latin-1', 'utf-32'):
        ctr['calls'] += 2
        if c.crc32(encoding=enc) != d.crc32(encoding=enc):
            bad('crc32-encoding', c.crc32(encoding=enc), d.crc32(encoding=enc))
    return V


def run_eq(tier):
    """c1 == c2 <=> triples equal: all pairs of tables of equal shape in S(6),
    plus label-renamed and order-swapped twins."""
    import concepts
    ctr = collections.Counter()
    V = []
    for n, m in space.shapes(6):
        objs, props = space.labels(n, m)
        tabs = [(space.rows_of(n, m, code)) for code in range(1 << (n * m))]
        ctxs = [concepts.Context(objs, props, r) for r in tabs]
        for i, a in enumerate(ctxs):
            for j, b in enumerate(ctxs):
                ctr['calls'] += 1
                if (a == b) != (i == j) or (a != b) != (i != j):
                    V.append(common.violation(ID, 'context-eq-iff-triples-equal',
                                              {'shape': [n, m], 'codes': [i, j]}, i == j, a == b))
                    break
            if V:
                break
        # twins: same table, one label renamed / label order swapped
        for r, a in zip(tabs, ctxs):
            o2 = ('zz',) + tuple(objs[1:])
            twins = [concepts.Context(o2, props, r)]
            if n > 1:
                twins.append(concepts.Context(tuple(reversed(objs)), props, r))
            if m > 1:
                twins.append(concepts.Context(objs, tuple(reversed(props)), r))
            for t in twins:
                ctr['calls'] += 1
                if a == t or not (a != t):
                    V.append(common.violation(ID, 'context-eq-renamed-twin',
                                              {'shape': [n, m], 'rows': r}, False, True))
        clone = [concepts.Context(list(objs), list(props), [list(x) for x in r]) for r in tabs[:8]]
        for a, b in zip(ctxs, clone):
            if not (a == b):
                V.append(common.violation(ID, 'context-eq-equal-triples', {'shape': [n, m]},
                                          True, False))
    ctr['evaluations'] = ctr['calls']
    return {'counters': dict(ctr), 'violations': V[:5], 'samples': [], 'outcomes': []}


def run_bigdef(tier):
    """Derived definitions of big operands (12 x 9 names): thresholds on the number of
    names dropped / merged; results and the follow-up behaviour of the result."""
    from .. import bigdefs
    universe = bigdefs.UNIVERSE
    names = sorted(set(universe[0]) | set(universe[1]))
    env.HashLabel.ranks = {n: len(names) - i for i, n in enumerate(names)}
    ctr = collections.Counter()
    V = []
    for sname, s in bigdefs.base_states():
        ctr['tables'] += 1
        for oname, t in bigdefs.operands():
            forms = [('union-ignore', lambda a, b: a.union(b, ignore_conflicts=True), tm.union, True),
                     ('intersection-ignore', lambda a, b: a.intersection(b, ignore_conflicts=True),
                      tm.intersection, True),
                     ('or', lambda a, b: a | b, tm.union, False),
                     ('and', lambda a, b: a & b, tm.intersection, False)]
            for name, fn, mfn, ign in forms:
                a, b = explore.make_real(s), explore.make_real(t)
                info = {'operation': name, 'left': sname, 'right': oname, 'universe': 'big'}
                ctr['calls'] += 1
                try:
                    exp = mfn(s, t, ign)
                except tm.Reject:
                    try:
                        fn(a, b)
                        V.append(common.violation(ID, 'conflict-raises', info, 'an exception', 'returned'))
                    except Exception:
                        pass
                    continue
                try:
                    res = fn(a, b)
                except Exception as e:
                    V.append(common.violation(ID, f'{name}-result', info, tm.triple(exp),
                                              f'{type(e).__name__}: {e}'))
                    continue
                if explore.visible(res) != tm.triple(exp):
                    V.append(common.violation(ID, f'{name}-result', info, tm.triple(exp),
                                              explore.visible(res)))
                    continue
                # the result is a definition like any other: follow-up operations on it
                import pickle
                blob = pickle.dumps(res)
                for op in bigdefs.followups(exp):
                    r2 = pickle.loads(blob)
                    vs, _ = explore.step(r2, exp, op, universe, ctr)
                    if vs:
                        V.append(common.violation(ID, 'edit-after-derivation',
                                                  dict(info, edit=explore.enc_op(op)),
                                                  vs[0]['expected'], vs[0]['observed']))
                        break
        # take with long selections
        for osel in (None, tuple(reversed(s[0]))[:4], s[0][::3], s[0][1:] + s[0][:1]):
            for psel in (None, tuple(reversed(s[1]))[:2], s[1][::2]):
                for reorder in (False, True):
                    if (osel is not None and not osel and not s[0]) or osel == () or psel == ():
                        pass
                    real = explore.make_real(s)
                    kw = {}
                    if osel is not None:
                        kw['objects'] = [L(x) for x in osel]
                    if psel is not None:
                        kw['properties'] = [L(x) for x in psel]
                    exp = tm.take(s, osel, psel, reorder)
                    ctr['calls'] += 1
                    try:
                        got = explore.visible(real.take(reorder=reorder, **kw))
                    except Exception as e:
                        got = f'{type(e).__name__}: {e}'
                    if got != tm.triple(exp):
                        V.append(common.violation(ID, 'take-result',
                                                  {'operand': sname, 'objects': osel, 'properties': psel,
                                                   'reorder': reorder, 'universe': 'big'},
                                                  tm.triple(exp), got))
        if len(V) >= 4:
            break
    ctr['evaluations'] = ctr['calls']
    return {'counters': dict(ctr), 'violations': V[:4], 'samples': [], 'outcomes': []}


SPECIAL_UNI = (('a*', 'ab', 'x[1]', 'x1'), ('why?', 'whom', '[p]'))


def run_special(tier):
    """Names containing characters that mean something to pattern matchers / formatters:
    labels are opaque.  Unary derivations and take on every definition over 2 + 2 of them."""
    ctr = collections.Counter()
    V = []
    names = sorted(set(SPECIAL_UNI[0]) | set(SPECIAL_UNI[1]))
    env.HashLabel.ranks = {n: i for i, n in enumerate(names)}
    import itertools
    for onames in itertools.combinations(SPECIAL_UNI[0], 2):
        for pnames in itertools.combinations(SPECIAL_UNI[1], 2):
            for s in tm.all_states(onames, pnames):
                ctr['tables'] += 1
                osel = [None] + list(tm.ordered_subsets(s[0]))
                psel = [None] + list(tm.ordered_subsets(s[1]))
                for o, p, reorder in itertools.product(osel, psel, (False, True)):
                    real = explore.make_real(s)
                    kw = {}
                    if o is not None:
                        kw['objects'] = [L(x) for x in o]
                    if p is not None:
                        kw['properties'] = [L(x) for x in p]
                    exp = tm.take(s, o, p, reorder)
                    ctr['calls'] += 1
                    try:
                        got = explore.visible(real.take(reorder=reorder, **kw))
                    except Exception as e:
                        got = f'{type(e).__name__}: {e}'
                    if got != tm.triple(exp):
                        V.append(common.violation(ID, 'take-result',
                                                  {'operand': _tj(s), 'objects': o, 'properties': p,
                                                   'reorder': reorder, 'universe': 'special'},
                                                  tm.triple(exp), got))
                        break
                real = explore.make_real(s)
                for name, fn, exp in (('copy', lambda d: d.copy(), s),
                                      ('transposed', lambda d: d.transposed(), tm.transposed(s)),
                                      ('inverted', lambda d: d.inverted(), tm.inverted(s))):
                    ctr['calls'] += 1
                    if explore.visible(fn(real)) != tm.triple(exp):
                        V.append(common.violation(ID, f'{name}-result',
                                                  {'operand': _tj(s), 'universe': 'special'},
                                                  tm.triple(exp), explore.visible(fn(real))))
                if len(V) >= 4:
                    break
    ctr['evaluations'] = ctr['calls']
    return {'counters': dict(ctr), 'violations': V[:4], 'samples': [], 'outcomes': []}


def run_shard(shard, tier):
    if shard[0] == 'BIGDEF':
        return run_bigdef(tier)
    if shard[0] == 'SPECIAL':
        return run_special(tier)
    if shard[0] == 'D':
        try:
            return run_derived(shard, tier)
        except common.HarnessError:
            raise
        except Exception as e:
            return {'counters': {}, 'samples': [], 'outcomes': [],
                    'violations': [common.library_exception(ID, {'shard': list(shard)}, e)]}
    if shard[0] == 'EQ':
        return run_eq(tier)
    if shard[0] == 'BFS':
        return run_bfs(shard, tier)
    return e1.run_shard_generic(shard, tier, ID, check_case)


def main(tier):
    return e1.main_e1(__import__(__name__, fromlist=['x']), tier)


def replay(v):
    c = v['case']
    if 'tag' in c:
        return e1.replay_e1(__import__(__name__, fromlist=['x']), v)
    if 'history' in c and 'op' in c and isinstance(c.get('universe'), list):
        universe = (tuple(c['universe'][0]), tuple(c['universe'][1]))
        V = explore.replay_history(c['history'], c['op'], universe, c['ranks'])
        return [common.violation(ID, x['clause'], c, x['expected'], x['observed']) for x in V]
    if c.get('universe') == 'big':
        return run_bigdef('quick')['violations']
    if c.get('universe') == 'special':
        return run_special('quick')['violations']
    # derived-definition cases: re-run the shard that contains the operand
    tier = 'quick'
    universe = UNI[tier]
    states = list(tm.all_states(*universe))
    key = c.get('left') or c.get('operand')
    out = []
    if key is not None:
        for i, s in enumerate(states):
            if _tj(s) == key:
                r = run_derived(('D', 'full', i, i + 1), tier)
                out = [x for x in r['violations']]
                break
        if not out and UNI_RESULTS_ONLY['thorough']:
            states = list(tm.all_states(*UNI_RESULTS_ONLY['thorough']))
            for i, s in enumerate(states):
                if _tj(s) == key:
                    r = run_derived(('D', 'results', i, i + 1), 'thorough')
                    out = r['violations']
                    break
    elif 'shape' in c:
        out = run_eq(tier)['violations']
    return out
