"""Shared runner plumbing: environment pinning, worker pool, violations,
known findings, replay confirmation, evidence files."""

import collections
import hashlib
import json
import multiprocessing
import os
import random
import subprocess
import sys
import time

VERIF = os.path.dirname(os.path.dirname(os.path.abspath(__file__)))
REPO = os.environ.get('VERIF_REPO', '/repo')
EVIDENCE_DIR = os.environ.get('VERIF_EVIDENCE_DIR') or os.path.join(VERIF, 'evidence')
REPLAY_DIR = os.environ.get('VERIF_REPLAY_DIR') or os.path.join(VERIF, 'replays')
KNOWN_FILE = os.path.join(VERIF, 'known_findings.json')
PY = sys.executable
NPROC = int(os.environ.get('VERIF_NPROC', '0')) or min(16, os.cpu_count() or 1)

EXIT_OK, EXIT_VIOLATION, EXIT_HARNESS = 0, 1, 2
STALL_S = int(os.environ.get('VERIF_STALL_S', '2400'))


class HarnessError(Exception):
    """The machinery itself is broken (never reported as VIOLATION)."""


def seed():
    try:
        return int(os.environ.get('VERIF_SEED', '0'))
    except ValueError:
        return 0


def pin_environment(vary_hashseed=False):
    """Re-exec with PYTHONHASHSEED=0 (unless the check varies it itself) and
    make sure ``concepts`` is imported from the repository working tree."""
    if not vary_hashseed and os.environ.get('PYTHONHASHSEED') != '0':
        env = dict(os.environ, PYTHONHASHSEED='0')
        os.execve(PY, [PY] + sys.argv, env)
    ensure_repo_import()


def ensure_repo_import():
    if REPO not in sys.path:
        sys.path.insert(0, REPO)
    import concepts
    path = os.path.realpath(concepts.__file__)
    if not path.startswith(os.path.realpath(REPO) + os.sep):
        raise HarnessError(f'concepts imported from {path}, not from {REPO}')
    return concepts


def clear_bitsets_registry():
    """bitsets keeps every generated class in a module-level registry for ever
    (measured: 275 MB per 20 000 contexts).  Workers drop it between shards;
    nothing in a shard relies on classes of an earlier shard."""
    import gc
    try:
        import bitsets.meta as bm
        reg = getattr(bm.MemberBitsMeta, '_MemberBitsMeta__registry', None)
        if reg is not None:
            reg.clear()
    except Exception:  # pragma: no cover - purely a memory optimisation
        pass
    gc.collect()


# ---------------------------------------------------------------- violations

def jsonable(x):
    if isinstance(x, (str, int, float, bool)) or x is None:
        return x
    if isinstance(x, dict):
        return {str(k): jsonable(v) for k, v in x.items()}
    if isinstance(x, (set, frozenset)):
        try:
            return [jsonable(v) for v in sorted(x)]
        except TypeError:
            return sorted((jsonable(v) for v in x), key=repr)
    if isinstance(x, (list, tuple)):
        return [jsonable(v) for v in x]
    return repr(x)


def violation(prop, clause, case, expected=None, observed=None, signature=None, repro=None):
    return {'property': prop, 'clause': clause, 'case': jsonable(case),
            'expected': jsonable(expected), 'observed': jsonable(observed),
            'signature': signature or f'{prop}:{clause}', 'repro': repro}


def library_exception(prop, case, exc):
    """Turn an exception that escaped from the library under test into a
    violation; an exception with no library frame in its traceback is a bug of
    the harness and is re-raised as HarnessError."""
    import traceback
    tb = traceback.extract_tb(exc.__traceback__)
    repo_prefix = os.path.realpath(REPO) + os.sep
    in_lib = [f for f in tb if os.path.realpath(f.filename).startswith(repo_prefix)]
    if not in_lib:
        raise HarnessError('exception inside the harness: '
                           + ''.join(traceback.format_exception(exc))) from exc
    last = in_lib[-1]
    where = f'{os.path.relpath(last.filename, REPO)}:{last.name}'
    return violation(prop, 'unexpected-exception', case,
                     expected='a result (no exception)',
                     observed=f'{type(exc).__name__}: {exc} at {where}',
                     signature=f'{prop}:unexpected-exception:{type(exc).__name__}:{where}')


def load_known():
    if not os.path.exists(KNOWN_FILE):
        return []
    with open(KNOWN_FILE) as f:
        doc = json.load(f)
    return doc.get('findings', [])


def known_match(v, known):
    """A violation is a known finding iff an entry with status 'known' has the
    same property and its signature equals the violation's signature.
    'fixed' entries never suppress anything."""
    for k in known:
        if k.get('status') != 'known':
            continue
        if k.get('property') == v['property'] and k.get('signature') == v['signature']:
            return k
    return None


def write_replay(v):
    d = os.path.join(REPLAY_DIR, v['property'])
    os.makedirs(d, exist_ok=True)
    blob = json.dumps(v, sort_keys=True, indent=1)
    digest = hashlib.sha1(json.dumps([v['property'], v['clause'], v['case']],
                                     sort_keys=True).encode()).hexdigest()[:12]
    path = os.path.join(d, f'{digest}.json')
    with open(path, 'w') as f:
        f.write(blob + '\n')
    if v.get('repro'):
        with open(os.path.join(d, f'test_replay_{digest}.py'), 'w') as f:
            f.write('# generated: plain reproduction, needs only `concepts`\n')
            f.write(v['repro'].rstrip() + '\n')
    return path


def serial_confirm(prop, tier, timeout=2400):
    """Re-run the whole check of ``prop`` in one fresh single process (VERIF_SERIAL=1:
    no pool, shard order as listed, first violation ends the run, evidence and replays go to
    a scratch directory).  True iff that run reports a violation of the property."""
    import shutil
    import tempfile
    tmp = tempfile.mkdtemp(prefix='verif-serial-', dir='/var/tmp')
    env = dict(os.environ, VERIF_SERIAL='1', VERIF_NPROC='1', VERIF_SEED='0',
               VERIF_EVIDENCE_DIR=tmp, VERIF_REPLAY_DIR=os.path.join(tmp, 'replays'))
    try:
        r = subprocess.run([PY, os.path.join(VERIF, 'mc', 'run.py'), prop, '--tier', tier],
                           capture_output=True, text=True, env=env, timeout=timeout)
        out = r.stdout + r.stderr
        return (r.returncode == EXIT_VIOLATION and f'VIOLATION property={prop}' in out), out
    except subprocess.TimeoutExpired:
        return False, 'serial confirmation run timed out'
    finally:
        shutil.rmtree(tmp, ignore_errors=True)


def confirm_replay(path):
    """Re-execute the case of a replay file in a fresh process.
    Returns True if the violation reproduces."""
    cmd = [PY, os.path.join(VERIF, 'mc', 'run.py'), '--replay', path]
    env = dict(os.environ)
    r = subprocess.run(cmd, capture_output=True, text=True, env=env, timeout=3600)
    return r.returncode == EXIT_VIOLATION, r.stdout + r.stderr


# ---------------------------------------------------------------- pool

def _worker(args):
    modname, fn, shard, tier = args
    import importlib
    ensure_repo_import()
    mod = importlib.import_module(modname)
    try:
        res = getattr(mod, fn)(shard, tier)
    finally:
        clear_bitsets_registry()
    return res


class Result:
    """Aggregated result of a run."""

    def __init__(self, prop):
        self.prop = prop
        self.counters = collections.Counter()
        self.violations = []
        self.samples = []
        self.outcomes = set()
        self.distinct = set()
        self.shards_total = 0
        self.shards_done = 0
        self.capped = False
        self.notes = []
        self.extra = {}

    def merge(self, r):
        self.counters.update(r.get('counters', {}))
        self.violations.extend(r.get('violations', []))
        for s in r.get('samples', []):
            self.samples.append(s)
            if len(self.samples) > 40:      # keep a spread: largest descriptions survive
                self.samples.sort(key=lambda x: -len(repr(x)))
                del self.samples[12:]
        self.outcomes.update(tuple(o) if isinstance(o, list) else o
                             for o in r.get('outcomes', []))
        self.distinct.update(r.get('distinct', ()))


def run_pool(result, modname, fn, shards, tier, budget_s=None, chunksize=1,
             maxtasks=16, stop_on_violations=20):
    """Run ``fn(shard, tier)`` of module ``modname`` for every shard on the
    worker pool and merge the returned dicts into ``result``."""
    shards = list(shards)
    rnd = random.Random(seed())
    # seed only rotates dispatch order inside a size class; coverage identical
    if seed():
        k = seed() % max(1, len(shards))
        shards = shards[k:] + shards[:k]
    result.shards_total += len(shards)
    t0 = time.time()
    if NPROC <= 1 or len(shards) <= 1:
        for sh in shards:
            result.merge(_worker((modname, fn, sh, tier)))
            result.shards_done += 1
            if os.environ.get('VERIF_SERIAL') == '1' and result.violations:
                result.capped = True
                break
            if budget_s and time.time() - t0 > budget_s:
                result.capped = True
                break
        return result
    ctx = multiprocessing.get_context('fork')
    with ctx.Pool(NPROC, maxtasksperchild=maxtasks) as pool:
        it = pool.imap_unordered(_worker, [(modname, fn, sh, tier) for sh in shards],
                                 chunksize=chunksize)
        while True:
            try:
                r = it.next(timeout=STALL_S)
            except StopIteration:
                break
            except multiprocessing.TimeoutError:
                pool.terminate()
                raise HarnessError(f'no shard finished within {STALL_S}s (worker lost?)')
            result.merge(r)
            result.shards_done += 1
            if budget_s and time.time() - t0 > budget_s and result.shards_done < len(shards):
                result.capped = True
                result.notes.append(f'time cap {budget_s}s hit after '
                                    f'{result.shards_done}/{len(shards)} shards')
                pool.terminate()
                break
            if len(result.violations) >= stop_on_violations:
                result.notes.append('stopped early after %d violations' % len(result.violations))
                result.capped = True
                pool.terminate()
                break
    return result


# ---------------------------------------------------------------- finish

def finish(result, tier, level, rule, assumptions, t0, coverage_extra=None,
           states_key='tables', transitions_key='calls', nontrivial_key='nontrivial'):
    """Handle violations (known findings, replay confirmation), write the
    evidence file, print the verdict lines, return the exit code."""
    prop = result.prop
    known = load_known()
    real, listed = [], {}
    seen_sig = set()
    for v in result.violations:
        k = known_match(v, known)
        if k is not None:
            listed.setdefault(k['signature'], (k, v))
        else:
            key = (v['clause'], json.dumps(v['case'], sort_keys=True))
            if key not in seen_sig:
                seen_sig.add(key)
                real.append(v)
    for sig, (k, v) in sorted(listed.items()):
        print(f"KNOWN-FINDING: property={prop} {k.get('what', sig)}")

    # smallest case first
    real.sort(key=lambda v: len(json.dumps(v['case'])))
    confirmed = []
    harness_fail = None
    serial = os.environ.get('VERIF_SERIAL') == '1'
    for v in real[:3]:
        path = write_replay(v)
        if serial:          # one process, fixed shard order: deterministic by construction
            confirmed.append((v, path))
            continue
        ok, out = confirm_replay(path)
        if not ok:
            # The case alone (and the recorded history of its worker) does not show it: the
            # library may keep process-global state, so that an answer depends on calls made
            # on other objects before.  Deterministic schedule for that: the whole check in
            # ONE process, shards in list order, stopped at the first violation.
            ok, out2 = serial_confirm(prop, tier)
            if ok:
                v = dict(v, schedule='serial-whole-check', tier=tier)
                path = write_replay(v)
            else:
                out += out2[-1500:]
        if ok:
            confirmed.append((v, path))
        else:
            harness_fail = (v, path, out)
            break

    c = result.counters
    coverage = {
        'evaluations': int(c.get('evaluations', c.get(transitions_key, 0))),
        'distinct_nontrivial': len(result.distinct) if result.distinct
        else int(c.get(nontrivial_key, 0)),
        'rule': rule,
        'samples': sorted(result.samples, key=lambda x: -len(repr(x)))[:6] or ['(none)'],
        'states': int(c.get(states_key, 0)),
        'transitions': int(c.get(transitions_key, 0)),
        'traces_validated_against_impl': int(c.get('traces_validated', c.get(states_key, 0))),
        'exhaustive': (not result.capped) and result.shards_done == result.shards_total,
        'shards_total': result.shards_total,
        'shards_done': result.shards_done,
        'distinct_outcomes': len(result.outcomes),
        'counters': {k: int(v) for k, v in sorted(c.items())},
        'clause_warnings': sorted({k for k, v in c.items() if k.startswith('hit_') and v == 0}
                                  | {k for k in getattr(result, 'expected_hits', ()) if not c.get(k)}),
        'notes': result.notes,
        'known_findings_seen': sorted(listed),
    }
    coverage.update(result.extra)
    if coverage_extra:
        coverage.update(coverage_extra)
    ev = {
        'property_id': prop,
        'tier': tier,
        'seed': seed(),
        'level': level,
        'coverage': coverage,
        'assumptions': assumptions,
        'wall_s': round(time.time() - t0, 3),
        'violations': len(real),
    }
    write_evidence(prop, ev)

    summary = (f"{prop} tier={tier} states={coverage['states']} "
               f"transitions={coverage['transitions']} nontrivial={coverage['distinct_nontrivial']} "
               f"outcomes={coverage['distinct_outcomes']} exhaustive={coverage['exhaustive']} "
               f"wall={ev['wall_s']}s")
    print(summary)
    for w in coverage['clause_warnings']:
        print(f'WARNING: clause counter {w} is zero')
    for n in result.notes:
        print(f'NOTE: {n}')

    if harness_fail is not None:
        v, path, out = harness_fail
        print(f'HARNESS-ERROR: {prop}: violation did not reproduce from {path}; '
              f'not reported as a violation', file=sys.stderr)
        sys.stderr.write(out[-2000:])
        return EXIT_HARNESS
    if confirmed:
        for v, path in confirmed:
            print(f"  clause={v['clause']} case={json.dumps(v['case'])[:300]}")
            print(f"  expected={json.dumps(v['expected'])[:300]}")
            print(f"  observed={json.dumps(v['observed'])[:300]}")
        print(f'VIOLATION property={prop} replay={confirmed[0][1]}')
        return EXIT_VIOLATION
    return EXIT_OK


def write_evidence(prop, ev):
    os.makedirs(EVIDENCE_DIR, exist_ok=True)
    path = os.path.join(EVIDENCE_DIR, f'{prop}.json')
    cov = ev['coverage']
    # minimal self-validation of what the schema requires
    assert ev['tier'] in ('quick', 'thorough')
    assert isinstance(ev['seed'], int)
    assert isinstance(cov['samples'], list) and cov['samples']
    tmp = path + '.tmp'
    with open(tmp, 'w') as f:
        json.dump(jsonable(ev), f, indent=1, sort_keys=True)
        f.write('\n')
    os.replace(tmp, path)
    return path
