"""E1h: bounded exhaustive exploration of CALL HISTORIES on one context / lattice object.

State = a freshly built ``Context`` (and its lattice) plus the calls made on it so far.
Alphabet = every read-only public query of the lattice API with every argument over the
(small) table: joins/meets of every ordered pair, predicates of every pair, every traversal,
every lookup by object / property subset, views of every concept, generating sets, export,
derivations, relations.  Explored, for the family F of the property under check:

  in-family, depth 2   every ordered pair (op1, op2) of F x F: fresh object, op1, op2
                       (quick tier: a binary op1 on concepts (i, j) only with i <= j)
  cross-family         every op1 of every other family: fresh object, op1, then every op2
                       of F in alphabet order; and again with the op2 in reverse order

Oracle (differential, "state reached from elsewhere == state reached from the initial
state"): what op2 answers after the history equals what it answers as the only call on a
fresh object.  Those solo answers are what the per-property checks compare with reference
model R1 on the same tables, so nothing is taken on trust and nothing beyond the statement
is demanded: every property says its results are functions of the table alone.
Observations are label tuples / booleans / texts, never object identities.
"""

import itertools
import re

from . import common

MAX_CELLS = 9           # quick tier; thorough: 10 (adds the 2x5 / 5x2 tables)


def max_cells(tier):
    return MAX_CELLS if tier == 'quick' else 10


def _ext(c):
    return tuple(c.extent)


_ADDR = re.compile(r' at 0x[0-9a-fA-F]+')


def _mask(x):
    """Observations are values; object addresses in reprs are not part of them."""
    if isinstance(x, str):
        return _ADDR.sub(' at 0x', x)
    if isinstance(x, (list, tuple)):
        return type(x)(_mask(v) for v in x)
    return x


def _obs(f):
    try:
        return _mask(f())
    except Exception as e:          # an exception is an observation like any other
        return ('EXC', type(e).__name__)


def alphabet(case):
    """{family: [(key, fn(ctx, lat))]} for the table of ``case``; k = number of concepts."""
    k = len(case.ref.concepts)
    R = range(k)
    objs, props = list(case.objs), list(case.props)
    A = {}

    def add(fam, key, fn):
        A.setdefault(fam, []).append((key, fn))

    for i in R:
        for j in R:
            add('C07', ('join', i, j), lambda c, l, i=i, j=j: _ext(l[i] | l[j]))
            add('C07', ('meet', i, j), lambda c, l, i=i, j=j: _ext(l[i] & l[j]))
            add('C08', ('predicates', i, j), lambda c, l, i=i, j=j: _preds(l[i], l[j]))
    add('C07', ('join-all',), lambda c, l: _ext(l.join(list(l))))
    add('C07', ('meet-all',), lambda c, l: _ext(l.meet(list(l))))
    add('C07', ('join-inner',), lambda c, l: _ext(l.join(list(l)[1:-1])))
    add('C07', ('meet-inner',), lambda c, l: _ext(l.meet(list(l)[1:-1])))
    for i in R:
        add('C09', ('upset', i), lambda c, l, i=i: [_ext(x) for x in l[i].upset()])
        add('C09', ('downset', i), lambda c, l, i=i: [_ext(x) for x in l[i].downset()])
        add('C09', ('upset-first', i), lambda c, l, i=i: _ext(next(l[i].upset())))
        add('C05', ('links', i), lambda c, l, i=i: ([_ext(x) for x in l[i].upper_neighbors],
                                                    [_ext(x) for x in l[i].lower_neighbors]))
        add('C06', ('ranks', i), lambda c, l, i=i: (l[i].index, l[i].dindex, _ext(l[i])))
        add('C10', ('labels', i), lambda c, l, i=i: (tuple(l[i].objects), tuple(l[i].properties),
                                                     sorted(_ext(a) for a in l[i].atoms), str(l[i])))
        add('C18', ('minimal', i), lambda c, l, i=i: tuple(l[i].minimal()))
        add('C18', ('attributes', i), lambda c, l, i=i: [tuple(a) for a in l[i].attributes()])
        add('C18', ('attributes-first', i), lambda c, l, i=i: tuple(next(iter(l[i].attributes()))))
    for i, j in itertools.combinations(R, 2):
        add('C09', ('upset-union', i, j),
            lambda c, l, i=i, j=j: [_ext(x) for x in l.upset_union([l[i], l[j]])])
        add('C09', ('downset-union', i, j),
            lambda c, l, i=i, j=j: [_ext(x) for x in l.downset_union([l[i], l[j]])])
    for r in range(len(objs) + 1):
        for sub in itertools.combinations(objs, r):
            add('C01', ('intension', sub), lambda c, l, s=sub: tuple(c.intension(s)))
            add('C05', ('neighbors', sub), lambda c, l, s=sub: sorted(c.neighbors(s)))
            if sub:
                add('C02', ('lattice-getitem', sub),
                    lambda c, l, s=sub: (_ext(l[s]), tuple(l[s].intent)))
                add('C02', ('context-getitem', sub), lambda c, l, s=sub: tuple(c[s]))
    for r in range(len(props) + 1):
        for sub in itertools.combinations(props, r):
            add('C01', ('extension', sub), lambda c, l, s=sub: tuple(c.extension(s)))
            add('C02', ('lattice-call', sub), lambda c, l, s=sub: (_ext(l(s)), tuple(l(s).intent)))
            if sub:
                add('C02', ('lattice-getitem-props', sub), lambda c, l, s=sub: _ext(l[s]))
    add('C03', ('members',), lambda c, l: ([(_ext(x), tuple(x.intent)) for x in l], len(l)))
    add('C03', ('len',), lambda c, l: len(l))
    add('C06', ('bounds',), lambda c, l: (_ext(l.infimum), _ext(l.supremum),
                                          [_ext(a) for a in l.atoms], str(l)))
    add('C20', ('graphviz',), lambda c, l: l.graphviz().source)
    add('C20', ('graphviz-callbacks',),
        lambda c, l: l.graphviz(make_object_label='/'.join, make_property_label='+'.join).source)
    add('C16', ('relations', False), lambda c, l: [str(r) for r in c.relations()])
    add('C16', ('relations', True),
        lambda c, l: ([str(r) for r in c.relations(include_unary=True)],
                      str(c.relations(include_unary=True))))
    add('C11', ('todict',), lambda c, l: repr(c.todict()))
    add('C11', ('pickle-lattice',), lambda c, l: _pickled(l))
    for name in ('fast_generate_from', 'fcbo_dual', 'get_concepts', 'iterconcepts'):
        add('C04', (name,), lambda c, l, name=name: _generated(c, name))
    return A


def _preds(x, y):
    return tuple(bool(v) for v in (
        x <= y, x < y, x >= y, x > y, x == y, x.implies(y), x.subsumes(y), x.properly_implies(y),
        x.properly_subsumes(y), x.incompatible_with(y), x.complement_of(y),
        x.subcontrary_with(y), x.orthogonal_to(y)))


def _generated(ctx, name):
    from concepts import algorithms
    out = []
    for x in getattr(algorithms, name)(ctx):
        e, i = (x.extent, x.intent) if hasattr(x, 'extent') else x
        out.append((tuple(e.members()), tuple(i.members())))
    return sorted(out)


def _pickled(l):
    import pickle
    l2 = pickle.loads(pickle.dumps(l))
    return [(_ext(x), tuple(x.intent), x.index, x.dindex, tuple(x.objects), tuple(x.properties),
             [u.index for u in x.upper_neighbors], [d.index for d in x.lower_neighbors])
            for x in l2]


def applicable(case, tier='quick'):
    return (case.variant == 'fresh' and case.labeling == 'asc' and case.n * case.m <= max_cells(tier)
            and case.tag and case.tag[0] == 'S' and len(case.ref.concepts) >= 4
            and case.ref.nontrivial())


def _fresh(case):
    ctx = case.fresh_ctx()
    return ctx, ctx.lattice


def _first_ok(key, tier):
    return tier != 'quick' or not (len(key) == 3 and isinstance(key[1], int)
                                   and isinstance(key[2], int) and key[1] > key[2])


def check(case, prop, ctr, families=None, tier='quick'):
    """Explore the histories whose LAST call belongs to ``families`` (default: the family
    named like the property).  Returns violations of ``prop``."""
    if not applicable(case, tier):
        return []
    A = alphabet(case)
    fams = families or (prop,)
    mine = [op for f in fams for op in A.get(f, ())]
    others = [op for f in sorted(A) if f not in fams for op in A[f]]
    if not mine:
        return []
    solo = {}
    for key, fn in mine:
        ctx, lat = _fresh(case)
        solo[key] = _obs(lambda: fn(ctx, lat))
    ctr['hit_histories'] += 1

    def bad(hist, key, got):
        return [common.violation(prop, 'answer-depends-on-call-history',
                                 case.ident(history=[list(map(str, h)) for h in hist]),
                                 solo[key], got,
                                 repro=case.py_ctx() + 'l = c.lattice\n'
                                 f'# calls, in this order, on the fresh objects: {hist!r}\n'
                                 '# the last one answers differently than on a fresh context\n')]

    # in-family, depth 2: every ordered pair
    for k1, f1 in mine:
        if not _first_ok(k1, tier):
            continue
        for k2, f2 in mine:
            ctx, lat = _fresh(case)
            _obs(lambda: f1(ctx, lat))
            got = _obs(lambda: f2(ctx, lat))
            ctr['calls'] += 2
            ctr['histories'] += 1
            if got != solo[k2]:
                return bad([k1, k2], k2, got)
    # cross-family: one foreign call, then the whole family forwards / backwards
    for k1, f1 in others:
        if not _first_ok(k1, tier):
            continue
        for order in (mine, mine[::-1]):
            ctx, lat = _fresh(case)
            _obs(lambda: f1(ctx, lat))
            done = [k1]
            ctr['histories'] += 1
            for k2, f2 in order:
                got = _obs(lambda: f2(ctx, lat))
                ctr['calls'] += 1
                done.append(k2)
                if got != solo[k2]:
                    return bad(done, k2, got)
    return []
