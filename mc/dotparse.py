"""A small DOT statement parser written from the DOT grammar (IDs: bare
alphanumerics/numerals or double-quoted strings with \\" escapes), enough for
the statement lists emitted for a lattice: node statements, edge statements
with ``->`` and optional ``[k=v ...]`` attribute lists."""


class DotError(Exception):
    pass


def tokenize(line):
    toks = []
    i, n = 0, len(line)
    while i < n:
        ch = line[i]
        if ch.isspace() or ch == ';' or ch == ',':
            i += 1
        elif ch == '"':
            j = i + 1
            buf = []
            while True:
                if j >= n:
                    raise DotError(f'unterminated string in {line!r}')
                if line[j] == '\\' and j + 1 < n and line[j + 1] == '"':
                    buf.append('"')
                    j += 2
                elif line[j] == '"':
                    break
                else:
                    buf.append(line[j])
                    j += 1
            toks.append(('str', ''.join(buf)))
            i = j + 1
        elif line.startswith('->', i) or line.startswith('--', i):
            toks.append(('op', line[i:i + 2]))
            i += 2
        elif ch in '[]=':
            toks.append(('op', ch))
            i += 1
        else:
            j = i
            while j < n and not line[j].isspace() and line[j] not in '[]=;,"' \
                    and not line.startswith('->', j):
                j += 1
            if j == i:
                raise DotError(f'cannot tokenize {line!r} at {i}')
            toks.append(('id', line[i:j]))
            i = j
    return toks


def parse_statement(line):
    """Return ('node', name, attrs) or ('edge', tail, head, attrs)."""
    toks = tokenize(line)
    if not toks or toks[0][0] == 'op':
        raise DotError(f'bad statement {line!r}')
    name = toks[0][1]
    k = 1
    head = None
    if k < len(toks) and toks[k] == ('op', '->'):
        if k + 1 >= len(toks) or toks[k + 1][0] == 'op':
            raise DotError(f'bad edge {line!r}')
        head = toks[k + 1][1]
        k += 2
    attrs = {}
    if k < len(toks):
        if toks[k] != ('op', '[') or toks[-1] != ('op', ']'):
            raise DotError(f'bad attribute list {line!r}')
        body = toks[k + 1:-1]
        j = 0
        while j < len(body):
            if j + 2 >= len(body) or body[j + 1] != ('op', '=') or body[j][0] == 'op' \
                    or body[j + 2][0] == 'op':
                raise DotError(f'bad attribute in {line!r}')
            attrs[body[j][1]] = body[j + 2][1]
            j += 3
    if head is None:
        return ('node', name, attrs)
    return ('edge', name, head, attrs)
