"""The call corpus of C17: everything observable about contexts, lattices and
definitions, rendered to strings (memory addresses masked).  The corpus is
parametric in the label factory (HashLabel under harness ranks, or plain str
in a fresh interpreter with some PYTHONHASHSEED), and is also runnable as a
script that prints one digest line per corpus section:

    PYTHONHASHSEED=<n> python c17corpus.py <tier>
"""

import hashlib
import io
import itertools
import json
import os
import re
import sys

_MASK = re.compile(r'0x[0-9a-fA-F]+')


def mask(s):
    return _MASK.sub('0x?', s)


def exc(fn):
    """Result or exception class + message, as a string."""
    try:
        return 'ok:' + mask(repr(fn()))
    except Exception as e:
        return f'raise:{type(e).__name__}:{mask(str(e))}'


# ---------------------------------------------------------------- contexts

def context_obs(objs, props, rows, unions=True):
    """List of (key, string) observations of one context."""
    import concepts
    from concepts import algorithms
    out = []
    add = lambda k, v: out.append((k, v if isinstance(v, str) else mask(repr(v))))  # noqa: E731
    c = concepts.Context(objs, props, rows)
    add('repr', mask(repr(c)))
    add('str', mask(str(c)))
    for f in ('table', 'cxt', 'csv', 'wiki-table', 'fimi'):
        add('tostring-' + f, c.tostring(f))
    add('tostring-csv-int', c.tostring('csv', bools_as_int=True))
    add('literal-nolattice', c.tostring('python-literal'))
    add('todict-nolattice', c.todict(ignore_lattice=True))
    lat = c.lattice
    members = list(lat)
    add('lattice-str', mask(str(lat)))
    add('todict', c.todict())
    buf = io.StringIO()
    c.tojson(buf)
    add('json', buf.getvalue())
    add('literal-lattice', c.tostring('python-literal'))
    add('relations', list(c.relations(include_unary=True)))
    add('relations-str', exc(lambda: str(c.relations())))
    add('relations-tostring', exc(lambda: c.relations(include_unary=True).tostring()))
    add('graphviz', mask(lat.graphviz().source))
    add('members', [(x.index, x.dindex, x.extent, x.intent, x.objects, x.properties,
                     [a.index for a in x.atoms],
                     [u.index for u in x.upper_neighbors],
                     [l.index for l in x.lower_neighbors],
                     x.minimal(), list(x.attributes())) for x in members])
    add('bounds', (lat.infimum.index, lat.supremum.index, [a.index for a in lat.atoms]))
    add('fcbo', [(e.members(), i.members()) for e, i in algorithms.fast_generate_from(c)])
    add('fcbo-dual', [(e.members(), i.members()) for e, i in algorithms.fcbo_dual(c)])
    add('get_concepts', [(x.objects, x.properties) for x in algorithms.get_concepts(c)])
    add('neighbors', [c.neighbors([o]) for o in objs])
    add('derive', [(c.intension([o]), c[(o,)]) for o in objs]
        + [(c.extension([p]), c[(p,)]) for p in props])
    add('pairs-intension', [c.intension(list(pr)) for pr in itertools.permutations(objs, 2)])
    add('unknown-label', [exc(lambda: c.intension(['nope'])), exc(lambda: c.extension(['nope'])),
                          exc(lambda: c[('nope',)]), exc(lambda: lat[('nope',)]),
                          exc(lambda: c.intension([objs[0], 'nope']))])
    add('definition', (repr(c.definition()), c.crc32(), c.definition().crc32(),
                       str(c.fill_ratio), repr(c.shape)))
    if unions:
        k = len(members)
        pairs = list(itertools.product(range(k), repeat=2)) if k <= 6 else \
            [(i, j) for i in range(k) for j in (0, i, k - 1, (i * 7 + 3) % k)]
        add('upset-unions', [[y.index for y in lat.upset_union([members[i], members[j]])]
                             for i, j in pairs])
        add('downset-unions', [[y.index for y in lat.downset_union([members[i], members[j]])]
                               for i, j in pairs])
        add('all-union', ([y.index for y in lat.upset_union(members)],
                          [y.index for y in lat.downset_union(members)]))
        add('join-meet', [(lat.join([members[i], members[j]]).index,
                           lat.meet([members[i], members[j]]).index) for i, j in pairs])
        if hasattr(lat, 'upset_generalization'):     # documented as experimental
            add('generalization', exc(lambda: [[y.index for y in lat.upset_generalization(
                [members[i], members[j]])] for i, j in pairs[:12]]))
    # reload paths
    d = c.todict()
    c2 = concepts.Context.fromdict(d)
    add('fromdict-members', [(x.index, x.dindex, x.objects, x.properties,
                              [a.index for a in x.atoms]) for x in c2.lattice])
    perm = {'objects': d['objects'], 'properties': d['properties'], 'context': d['context'],
            'lattice': list(reversed([(e, i, tuple(len(d['lattice']) - 1 - u for u in up),
                                       tuple(len(d['lattice']) - 1 - l for l in lo))
                                      for e, i, up, lo in d['lattice']]))}
    c3 = concepts.Context.fromdict(perm, raw=True)
    add('fromdict-raw-members', [(x.index, x.dindex, x.extent, x.objects, x.properties,
                                  [u.index for u in x.upper_neighbors],
                                  [l.index for l in x.lower_neighbors]) for x in c3.lattice])
    return out


# ---------------------------------------------------------------- error messages

def error_obs(o, p):
    """Constructor / loader / definition error messages over a 3+3 label set."""
    import concepts
    C, D = concepts.Context, concepts.Definition
    a, b, c_ = o
    x, y, z = p
    R = lambda n, m: [tuple([True] * m)] * n  # noqa: E731
    out = []
    add = lambda k, fn: out.append((k, exc(fn)))  # noqa: E731
    add('dup-objects', lambda: C([a, b, a], [x], R(3, 1)))
    add('dup-objects-2', lambda: C([b, a, b, a], [x], R(4, 1)))
    add('dup-properties', lambda: C([a], [x, y, x], R(1, 3)))
    add('empty-objects', lambda: C([], [x], []))
    add('empty-properties', lambda: C([a], [], [()]))
    add('overlap-1', lambda: C([a, b], [a, x], R(2, 2)))
    add('overlap-2', lambda: C([a, b, c_], [b, a, x], R(3, 3)))
    add('overlap-2r', lambda: C([b, a, c_], [a, b, x], R(3, 3)))
    add('overlap-3', lambda: C([a, b, c_], [c_, b, a], R(3, 3)))
    add('bools-shape', lambda: C([a, b], [x, y], R(2, 3)))
    add('bools-rows', lambda: C([a, b], [x, y], R(3, 2)))
    good = {'objects': (a, b), 'properties': (x, y), 'context': [(0,), (1,)]}
    add('fromdict-missing-1', lambda: C.fromdict({'objects': (a,), 'context': [()]}))
    add('fromdict-missing-3', lambda: C.fromdict({}))
    add('fromdict-missing-2', lambda: C.fromdict({'context': [()]}))
    add('fromdict-nonstring', lambda: C.fromdict(dict(good, objects=(a, 1))))
    add('fromdict-nonstring-p', lambda: C.fromdict(dict(good, properties=(None, y))))
    add('fromdict-rows', lambda: C.fromdict(dict(good, context=[(0,)])))
    add('fromdict-index', lambda: C.fromdict(dict(good, context=[(0,), (2,)])))
    add('fromdict-dup-index', lambda: C.fromdict(dict(good, context=[(0, 0), (1,)])))
    add('fromdict-empty-lattice', lambda: C.fromdict(dict(good, lattice=[])))
    add('fromdict-require', lambda: C.fromdict(good, require_lattice=True))
    add('fromdict-dup-names', lambda: C.fromdict(dict(good, objects=(a, a))))
    add('fromdict-overlap', lambda: C.fromdict(dict(good, objects=(x, y))))
    add('definition-dup', lambda: D([a, b, a], [x], R(3, 1)))
    add('definition-dup-p', lambda: D([a], [y, x, y], R(1, 3)))
    d1 = D([a, b, c_], [x, y, z], [(1, 0, 1), (0, 1, 0), (1, 1, 0)])
    d2 = D([c_, b, a], [z, y, x], [(1, 1, 1), (1, 1, 1), (1, 1, 1)])
    add('conflict-union', lambda: d1.union(d2))
    add('conflict-intersection', lambda: d1 & d2)
    add('conflict-rev', lambda: d2 | d1)
    add('take-unknown', lambda: d1.take([a, 'q', 'r'], [x, 's']))
    add('take-unknown-2', lambda: d1.take(['r', 'q']))
    add('rename-clash', lambda: d1.copy().rename_object(a, b))
    add('rename-unknown', lambda: d1.copy().rename_property('q', 'r'))
    add('remove-unknown', lambda: d1.copy().remove_object('q'))
    add('move-unknown', lambda: d1.copy().move_property('q', 0))
    add('getitem-unknown', lambda: d1['q', x])
    add('setitem-int', lambda: d1.copy().__setitem__(0, True))
    add('format-unknown', lambda: concepts.Context([a], [x], [(1,)]).tostring('nope'))
    add('infer-format', lambda: concepts.load('file.unknown'))
    # several offending names / symbols at once: a message that lists them must not list them
    # in hash order
    add('definition-dup-2', lambda: D([b, a, c_, a, b, c_], [x], R(6, 1)))
    add('definition-dup-p-3', lambda: D([a], [z, y, x, x, y, z], R(1, 6)))
    add('dup-objects-3', lambda: C([c_, b, a, a, b, c_], [x], R(6, 1)))
    add('dup-properties-3', lambda: C([a], [z, x, y, y, x, z], R(1, 6)))
    add('fromdict-dup-names-3', lambda: C.fromdict(dict(good, objects=(b, a, b, a))))
    for fname in ('csv', 'table', 'cxt'):
        for sym in ((x, y, z), (z, y, x), (a, b, c_)):
            text = {'csv': 'o,p,q,r\nrow,%s,%s,%s\nrow2,%s,%s,%s\n' % (sym + sym[::-1]),
                    'table': ' |p|q|r|\nrow|%s|%s|%s|\n' % sym,
                    'cxt': 'B\n\n1\n3\n\nrow\np\nq\nr\n%s%s%s\n' % tuple(t[:1] for t in sym)}[fname]
            add(f'load-{fname}-symbols-{"".join(sym)}',
                lambda text=text, fname=fname: repr(C.fromstring(text, frmat=fname)))
    for cls in (C, D):
        add(f'unknown-format-{cls.__name__}',
            lambda cls=cls: cls.fromstring('x', frmat='no-such-format'))
    return out


# ---------------------------------------------------------------- definitions

def definition_obs(universe, states, label, two_step=False):
    """(key, string) per (state, operation instance): triple + return/exception."""
    from mc import explore, tablemodel as tm
    out = []
    for s in states:
        ops = list(tm.alphabet(s, universe[0], universe[1], ()))
        ops += extra_ops(s, universe)
        for op in ops:
            real = explore.make_real(s)
            try:
                ret = explore.apply_real(real, op)
                r = 'ok:' + repr(explore.norm_ret(op[0], ret))
            except Exception as e:
                r = f'raise:{type(e).__name__}:{e}'
            shown = repr(explore.visible(real)) + '|' + r + '|' + real.tostring()
            # reveal suffix: whatever the call left behind that the table does not show yet
            # (cells of names the definition does not have) - fill ratio, then every universe
            # name is added on both axes and the table is read again
            try:
                tail = [repr(real.fill_ratio)]
                for o in universe[0]:
                    real.add_object(explore.L(o))
                for q in universe[1]:
                    real.add_property(explore.L(q))
                tail.append(repr(explore.visible(real)))
            except Exception as e:
                tail = [f'raise:{type(e).__name__}:{e}']
            out.append((json.dumps([tm.triple(s), explore.enc_op(op)]), shown + '|' + '|'.join(tail)))
    return out


def extra_ops(s, universe):
    """Pool-style operands chosen to have names in both orders (small, fixed)."""
    from mc import tablemodel as tm
    o, p = universe
    others = [tm.from_triple(tuple(reversed(o)), tuple(reversed(p)),
                             [[True] * len(p)] * len(o)),
              tm.from_triple(o[:2], p[:1], [[False]] * 2),
              tm.from_triple(o[-1:] + o[:1], p, [[True] + [False] * (len(p) - 1)] * 2)]
    for t in others:
        for ign in (False, True):
            yield ('union_update', t, ign)
            yield ('intersection_update', t, ign)


TAKE_FORMS = (tuple, iter, lambda seq: (x for x in seq), lambda seq: dict.fromkeys(seq).keys())


def derived_obs(universe, states):
    """Derived definitions (union/intersection/take/...) as strings."""
    from mc import explore, tablemodel as tm
    out = []
    others = [t for s0 in states[:1] for t in [op[1] for op in extra_ops(s0, universe)][::4]]
    for s in states:
        d = explore.make_real(s)
        obs = [repr(d), repr(d.copy()), repr(-d), repr(~d), d.tostring(), d.crc32()]
        for t in others:
            e = explore.make_real(t)
            obs.append(exc(lambda: d.union(e, ignore_conflicts=True)))
            obs.append(exc(lambda: d.intersection(e, ignore_conflicts=True)))
            obs.append(exc(lambda: d | e))
            obs.append(exc(lambda: e & d))
        names = [explore.L(x) for x in universe[0]]
        pn = [explore.L(x) for x in universe[1]]
        obs.append(exc(lambda: d.take(list(reversed(names)), list(reversed(pn)), reorder=True)))
        obs.append(exc(lambda: d.take(list(reversed(names)), None)))
        # the same selections handed over as ordered non-list iterables (tuple, key view, one-shot
        # iterator, generator): whatever the call does with them, it must not follow the hashes
        present = ([n for n in reversed(names) if n in s[0]], [n for n in reversed(pn) if n in s[1]])
        for form in TAKE_FORMS:
            for sel in ((list(reversed(names)), list(reversed(pn))), present):
                for reorder in (False, True):
                    obs.append(exc(lambda: d.take(form(sel[0]), form(sel[1]), reorder=reorder)))
        out.append((json.dumps(tm.triple(s)), '|'.join(obs)))
    return out


# ---------------------------------------------------------------- script mode (plain str)

def plain_items(tier, label=str):
    """Corpus with labels made by ``label`` (plain ``str`` in fresh interpreters
    under different PYTHONHASHSEED values; HashLabel for the seam-conformance
    run).  Returns {section: [(key, value)]}."""
    here = os.path.dirname(os.path.abspath(__file__))
    sys.path.insert(0, os.path.dirname(here))
    from mc import common, explore, space, tablemodel as tm
    common.ensure_repo_import()
    sections = {}
    items = []
    for n in range(1, 4):
        for m in range(1, 4):
            if tier == 'quick' and n * m > 6:
                continue
            objs = [label(x) for x in ['oa', 'ob', 'oc'][:n]]
            props = [label(x) for x in ['px', 'py', 'pz'][:m]]
            for code in range(1 << (n * m)):
                rows = space.rows_of(n, m, code)
                for k, v in context_obs(objs, props, rows):
                    items.append((f'{n}x{m}:{code}:{k}', v))
    n, m = 40, 30       # more than 1000 cells
    rows = [tuple((i * j + i + 2 * j) % 5 < 2 for j in range(m)) for i in range(n)]
    for k, v in context_obs([label(f'obj{i:02d}') for i in range(n)],
                            [label(f'prop{j:02d}') for j in range(m)], rows, unions=False):
        items.append((f'big40x30:{k}', v))
    sections['contexts'] = items
    sections['errors'] = error_obs([label(x) for x in ['oa', 'ob', 'oc']],
                                   [label(x) for x in ['px', 'py', 'pz']])
    uni = (('a', 'b', 'c'), ('x', 'y')) if tier == 'quick' else (('a', 'b', 'c'), ('x', 'y', 'z'))
    states = list(tm.all_states(*uni))
    if tier == 'thorough':
        states = states[::7]
    sections['definitions'] = definition_obs(uni, states, str)
    sections['derived'] = derived_obs(uni, states)
    uni2 = (('a', 'b', 'c'), ('a', 'y'))
    sections['definitions-shared'] = definition_obs(uni2, list(tm.all_states(*uni2))[::3], str)
    return sections


def digest(items):
    h = hashlib.sha256()
    for k, v in items:
        h.update(repr((k, v)).encode('utf-8', 'backslashreplace'))
    return h.hexdigest()


if __name__ == '__main__':
    tier = sys.argv[1] if len(sys.argv) > 1 else 'quick'
    dump = sys.argv[2] if len(sys.argv) > 2 else None
    here = os.path.dirname(os.path.abspath(__file__))
    sys.path.insert(0, os.path.dirname(here))
    from mc import env
    env.HashLabel.ranks = {}     # HashLabel falls back to str.__hash__: plain behaviour
    secs = plain_items(tier)
    if dump:
        for k, v in secs[dump]:
            print(json.dumps([k, hashlib.sha256(v.encode('utf-8', 'backslashreplace')).hexdigest(), v[:400]]))
    else:
        for k, v in sorted(secs.items()):
            print(k, digest(v), len(v))
