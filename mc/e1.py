"""E1 `ctxspace`: exhaustive exploration of the context (boolean table) space
on the real ``concepts.Context`` against reference model R1."""

import collections
import time

from . import common, space
from .refmodel import Ref, RefError


class ForeignLabel(Exception):
    """A result of the library names something that is not a label of the
    axis it should come from: a violation of whatever is being checked."""


class Case:
    """One explored state: a boolean table with labels attached."""

    def __init__(self, rows, tag, labeling, variant='fresh'):
        self.variant = variant
        self.rows = [tuple(r) for r in rows]
        self.n = len(self.rows)
        self.m = len(self.rows[0])
        self.tag = tuple(tag)
        self.labeling = labeling
        self.objs, self.props = space.labels(self.n, self.m, labeling)
        self._opos = {o: i for i, o in enumerate(self.objs)}
        self._ppos = {p: j for j, p in enumerate(self.props)}
        self._ctx = None
        self._ref = None
        self.keep = []          # results a check wants to stay referenced while later cases run

    @property
    def ctx(self):
        if self._ctx is None:
            import concepts
            rows = self.rows
            if self.variant == 'truthy-cells':     # cells count by truthiness, whatever their type
                rows = [[(3 if j % 2 else 2) if b else 0 for j, b in enumerate(r)] for r in rows]
            self._ctx = concepts.Context(self.objs, self.props, rows)
            if self.variant == 'used':
                stir(self._ctx)
        return self._ctx

    def fresh_ctx(self):
        import concepts
        return concepts.Context(self.objs, self.props, self.rows)

    @property
    def ref(self):
        if self._ref is None:
            self._ref = Ref(self.rows)
        return self._ref

    @property
    def lat(self):
        """The lattice under study.  Variants reach it by another route than
        computing it ("start from non-initial states too"): 'pickle' = pickle round
        trip of the computed lattice, 'fromdict-raw' = reloaded from the serialized
        dict with the stored order reversed and raw=True."""
        if getattr(self, '_lat', None) is None:
            if self.variant in ('fresh', 'truthy-cells', 'used'):
                self._lat = self.ctx.lattice
            elif self.variant == 'pickle':
                import pickle
                self._lat = pickle.loads(pickle.dumps(self.ctx.lattice))
            elif self.variant == 'fromdict-raw':
                import concepts
                d = self.ctx.todict()
                k = len(d['lattice'])
                perm = {'objects': d['objects'], 'properties': d['properties'],
                        'context': [tuple(reversed(r)) for r in d['context']],
                        'lattice': [(tuple(reversed(e)), tuple(reversed(i)),
                                     tuple(k - 1 - u for u in reversed(up)),
                                     tuple(k - 1 - l for l in reversed(lo)))
                                    for e, i, up, lo in reversed(d['lattice'])]}
                self._ctx = concepts.Context.fromdict(perm, raw=True)
                self._lat = self._ctx.lattice
            else:
                raise ValueError(self.variant)
        return self._lat

    def align(self):
        """Real Concept objects aligned with ``ref.concepts`` (same position =
        same extent), or None when the concept sets differ or repeat (that is
        C03's business; dependent properties report it as a failed precondition)."""
        if getattr(self, '_aligned', False) is False:
            by_extent = {}
            real = list(self.lat)
            for c in real:
                by_extent.setdefault(frozenset(c.extent), []).append(c)
            res = []
            ok = len(real) == len(self.ref.concepts)
            for e, i in self.ref.concepts:
                lst = by_extent.get(frozenset(self.olab(e)))
                if not lst or len(lst) != 1 or frozenset(lst[0].intent) != frozenset(self.plab(i)):
                    ok = False
                    break
                res.append(lst[0])
            self._aligned = res if ok else None
            if ok:
                self._pos = {id(c): k for k, c in enumerate(res)}
        return self._aligned

    def pos(self, concept):
        """R1 index of a real concept object (identity), or None if foreign."""
        return self._pos.get(id(concept))

    def olab(self, positions):
        return tuple(self.objs[i] for i in sorted(positions))

    def plab(self, positions):
        return tuple(self.props[j] for j in sorted(positions))

    def opos(self, labels):
        try:
            return tuple(self._opos[l] for l in labels)
        except (KeyError, TypeError):
            raise ForeignLabel(f'{labels!r} are not all objects of the context')

    def ppos(self, labels):
        try:
            return tuple(self._ppos[l] for l in labels)
        except (KeyError, TypeError):
            raise ForeignLabel(f'{labels!r} are not all properties of the context')

    def ident(self, **extra):
        d = {'tag': list(self.tag), 'labeling': self.labeling, 'variant': self.variant,
             'table': [''.join('X' if b else '.' for b in r) for r in self.rows]
             if self.n * self.m <= 64 else f'{self.n}x{self.m}'}
        d.update(extra)
        return d

    def py_ctx(self):
        """Source text building this context (for generated reproductions)."""
        return (f'import concepts\n'
                f'objects = {list(self.objs)!r}\n'
                f'properties = {list(self.props)!r}\n'
                f'rows = {[tuple(r) for r in self.rows]!r}\n'
                f'c = concepts.Context(objects, properties, rows)\n')


def stir(ctx, rounds=1):
    """A history of read-only public calls on one context and its lattice ("start from
    non-initial states too"): every query family once, with closed and non-closed, valid
    and unknown arguments, lazily consumed and abandoned iterators, exports and a pickle.
    None of it may change what any later query answers; whatever a call does here
    (including raising) is outside the property under check - only its effect on the
    state of the objects matters, so every call is individually guarded."""
    import io
    import itertools
    import pickle

    def g(f, *a, **k):
        try:
            return f(*a, **k)
        except Exception:
            return None

    objs, props = tuple(ctx.objects), tuple(ctx.properties)
    for _ in range(rounds):
        g(ctx.intension, ['\x00nobody']); g(ctx.extension, ['\x00nothing'])
        g(ctx.__getitem__, ('\x00nobody',)); g(ctx.neighbors, ['\x00nobody'])
        g(ctx.intension, objs[:1] + props[:1]); g(ctx.extension, props[:1] + objs[:1])
        for r in (0, 1, 2):
            for sub in itertools.combinations(objs[:5], r):
                g(ctx.intension, sub); g(ctx.intension, sub, raw=True)
                g(ctx.neighbors, sub); g(ctx.neighbors, sub, raw=True)
                if sub:
                    g(ctx.__getitem__, sub)
            for sub in itertools.combinations(props[:5], r):
                g(ctx.extension, sub); g(ctx.extension, sub, raw=True)
                if sub:
                    g(ctx.__getitem__, sub)
        g(ctx.intension, objs); g(ctx.extension, props)
        g(lambda: (ctx.bools, ctx.shape, ctx.fill_ratio, str(ctx), repr(ctx), ctx.crc32()))
        g(lambda: [list(ctx.relations(include_unary=u)) and str(ctx.relations(include_unary=u))
                   for u in (False, True)])
        g(ctx.definition); g(ctx.copy); g(lambda: ctx == ctx.copy())
        for f in ('table', 'cxt', 'csv', 'python-literal', 'fimi', 'wiki-table'):
            g(ctx.tostring, f)
        g(ctx.todict, ignore_lattice=True)
        lat = g(lambda: ctx.lattice)
        if lat is None:
            continue
        g(ctx.todict); g(ctx.tojson, io.StringIO()); g(pickle.dumps, ctx); g(pickle.dumps, lat)
        g(lambda: pickle.loads(pickle.dumps(ctx)).lattice)
        cs = g(lambda: list(lat)[:10]) or []
        g(lambda: (len(lat), str(lat), repr(lat), lat.infimum, lat.supremum, lat.atoms))
        g(lat.__getitem__, ()); g(lat.__getitem__, 0); g(lat.__getitem__, -1)
        g(lat.__getitem__, ('\x00nobody',)); g(lat.__call__, ('\x00nothing',)); g(lat.__call__, ())
        g(lat.join, [None]); g(lat.upset_union, [None])
        for r in (1, 2):
            for sub in itertools.combinations(objs[:5], r):
                g(lat.__getitem__, sub)
            for sub in itertools.combinations(props[:5], r):
                g(lat.__getitem__, sub); g(lat.__call__, sub)
        for x in cs:
            g(lambda: (str(x), repr(x), x.extent, x.intent, x.objects, x.properties, x.atoms,
                       x.index, x.dindex, x.upper_neighbors, x.lower_neighbors, x.minimal()))
            it = g(x.attributes)
            g(lambda: next(it))                     # abandoned after one item
            g(lambda: list(itertools.islice(x.attributes(), 3)))
            up, down = g(x.upset), g(x.downset)
            g(lambda: next(up)); g(lambda: next(down))      # left half-consumed
            g(lambda: (list(x.upset()), list(x.downset())))
            for y in cs:
                g(lambda: (x | y, x & y, x.join(y), x.meet(y), lat.join([x, y]), lat.meet([x, y]),
                           x <= y, x < y, x >= y, x > y, x.implies(y), x.subsumes(y),
                           x.properly_implies(y), x.properly_subsumes(y), x.incompatible_with(y),
                           x.complement_of(y), x.subcontrary_with(y), x.orthogonal_to(y)))
        g(lat.join, []); g(lat.meet, []); g(lat.join, cs); g(lat.meet, cs)
        g(lat.join, iter(cs[:3])); g(lat.meet, iter(cs[:3]))
        u, d = g(lat.upset_union, cs[1:4]), g(lat.downset_union, cs[1:4])
        g(lambda: next(u)); g(lambda: next(d))
        g(lambda: (list(lat.upset_union(cs[:3] + cs[:1])), list(lat.downset_union(cs[:3] + cs[:1])),
                   list(lat.upset_union([])), list(lat.downset_union([]))))
        g(lambda: lat.graphviz().source)
        g(lambda: lat.graphviz(make_object_label=','.join, make_property_label='|'.join).source)
        g(lambda: list(reversed(lat))); g(lambda: cs[0] in lat); g(lambda: lat == lat)
    return ctx


def sibling_schedule(case):
    """Two live contexts over the SAME labels with different tables, created
    back to back before either is used (e.g. Context(*definition) after editing a
    cell).  Returns (older, case context, newer, Ref of the sibling table): the
    siblings hold the complemented table.  Interleavings explored by the callers:
    create-older, create-A, create-newer, then use older / use A."""
    import concepts
    inv = [tuple(not b for b in r) for r in case.rows]
    older = concepts.Context(case.objs, case.props, inv)
    a = concepts.Context(case.objs, case.props, case.rows)
    newer = concepts.Context(case.objs, case.props, inv)
    return older, a, newer, Ref(inv)


def misaligned(prop, case):
    return common.violation(prop, 'precondition-concept-set', case.ident(),
                            'lattice members == formal concepts of the table (C03)',
                            [(list(c.extent), list(c.intent)) for c in case.lat])


def case_from_ident(ident):
    rows = space.rows_from_tag(tuple(ident['tag']))
    return Case(rows, ident['tag'], ident.get('labeling', space.ASC), ident.get('variant', 'fresh'))


# ---------------------------------------------------------------- shard sets

def std_shards(tier, quick_bound=12, thorough_bound=16, extra_thorough_shapes=(),
               with_f=True, with_p=False, max_side=None, f_quick=(5, 1), chunk=2048, with_g=True,
               with_big=False, with_hist=False):
    """Standard strata: S(12)/S(16) ∪ F (∪ P)."""
    if tier == 'quick':
        sh = space.s_shards(quick_bound, chunk=chunk, max_side=max_side)
        if with_f:
            sh += space.f_shards(f_quick[0], f_quick[1])
        if with_p:
            sh += space.p_shards(bound=4, offsets=(30, 31, 64, 65), pads=('blank', 'copy'),
                                 axes=('obj', 'prop', 'both'))
            # two same-size extents beyond the 52/64-bit boundaries: 4x2 / 2x4 blocks
            sh += space.p_shards(bound=0, offsets=(64,), pads=('blank',),
                                 axes=('obj', 'prop', 'both'), extra_shapes=((4, 2), (2, 4)))
            # padding in the middle (first row/column low, the rest beyond the boundary)
            sh += [s for s in space.p_shards(bound=4, offsets=(8, 65), pads=P_PADS_ALL,
                                             axes=('obj-mid', 'prop-mid'))
                   if (s[5] == 'obj-mid' and s[1] >= 2) or (s[5] == 'prop-mid' and s[2] >= 2)]
    else:
        sh = space.s_shards(thorough_bound, chunk=chunk, extra_shapes=extra_thorough_shapes,
                            max_side=max_side)
        if with_f:
            sh += space.f_shards(5, 2) + space.f_shards(6, 2)
            sh += space.f_shards(7, 1)
        if with_p:
            sh += space.p_shards(bound=6)
            sh += space.p_shards(bound=0, offsets=(52, 64, 128), pads=('blank', 'copy'),
                                 axes=('obj', 'prop', 'both'), extra_shapes=((4, 2), (2, 4)))
            sh += [s for s in space.p_shards(bound=6, offsets=(8, 31, 65, 130), pads=P_PADS_ALL,
                                             axes=('obj-mid', 'prop-mid'))
                   if (s[5] == 'obj-mid' and s[1] >= 2) or (s[5] == 'prop-mid' and s[2] >= 2)]
    if with_big:
        sh += space.big_shards(tier)
    if with_g:
        sh += space.g_shards(tier)
    if with_hist:
        sh = hist_shards(tier) + sh
    return sh


P_PADS_ALL = ('blank', 'cross', 'copy')


def labelings_for(tag, both=True):
    return (space.ASC, space.DESC) if both else (space.ASC,)


# The last few cases explored by this worker process, whatever the shard: the
# library may keep process-global state (class-level defaults, caches), so the
# "state" a case starts from includes its predecessors.  A violation records
# them and the replay re-executes them first.
RECENT = collections.deque(maxlen=6)
# ... and the last three Case objects (contexts, lattices and whatever results the check put
# into ``case.keep``) stay referenced while their successors run: predecessors one to three
# steps back are alive, older ones have been collected - both situations occur for every case.
ALIVE = collections.deque(maxlen=3)
# Every shard this worker process has started, in order.  Process-global state of the library
# (module-level caches, class registries) may reach further back than RECENT; a violation that
# does not reproduce from its recent predecessors is replayed from the start of its worker.
WORKER_SHARDS = []


VARIANT_CELLS = 9     # tables up to this many cells are also explored through the variants


def track(case, vs, tier):
    """Attach the process history to the violations of a case and register the case as a
    predecessor of what follows (also used by the per-property extra loops)."""
    for v in vs:
        if isinstance(v.get('case'), dict):
            v['case'].setdefault('after', [dict(x) for x in RECENT])
            v['case'].setdefault('worker', {'tier': tier,
                                            'shards': [list(x) for x in WORKER_SHARDS]})
    RECENT.append({'tag': list(case.tag), 'labeling': case.labeling, 'variant': case.variant})
    ALIVE.append(case)


def run_shard_generic(shard, tier, prop, check_case, both_labelings=True,
                      max_violations=5, sample_every=997, variants=(), wide_variants=None):
    """Explore every table of a shard with ``check_case(case, ctr)``."""
    if shard[0] == 'H':
        return run_hist_shard(shard, tier, prop)
    ctr = collections.Counter()
    viols = []
    samples = []
    outcomes = set()
    if not WORKER_SHARDS or WORKER_SHARDS[-1] != shard:
        WORKER_SHARDS.append(shard)
    for n, m, rows, tag in space.tables_of_shard(shard):
        first = True
        runs = [(labeling, 'fresh') for labeling in labelings_for(tag, both_labelings)]
        if variants and n * m <= VARIANT_CELLS:
            runs += [(space.ASC, v) for v in variants]
        elif variants and tag[0] == 'W':
            # the whole wide / big tables too: pickling has size-dependent paths (index widths,
            # far-apart cover links) that no 9-cell table reaches
            wv = wide_variants if wide_variants is not None else \
                tuple(v for v in variants if v == 'pickle')
            runs += [(space.ASC, v) for v in wv]
        for labeling, variant in runs:
            case = Case(rows, tag, labeling, variant)
            if variant != 'fresh':
                ctr['hit_variant_' + variant] += 1
            try:
                vs = check_case(case, ctr)
                if variant == 'used' and not vs:
                    # the check's own queries are a history too: same objects, second pass
                    vs = check_case(case, ctr)
                    for v in vs:
                        v['clause'] += '@second-pass'
            except RefError as e:
                raise common.HarnessError(f'{prop}: {e} on {tag}')
            except common.HarnessError:
                raise
            except ForeignLabel as e:
                vs = [common.violation(prop, 'foreign-label', case.ident(),
                                       'labels of the right axis', str(e))]
            except Exception as e:
                vs = [common.library_exception(prop, case.ident(), e)]
            ctr['evaluations'] += 1
            track(case, vs, tier)
            if first:
                first = False
                ctr['tables'] += 1
                try:
                    nt = case.ref.nontrivial()
                    if nt:
                        ctr['nontrivial'] += 1
                    outcomes.add(case.ref.signature())
                except RefError as e:
                    raise common.HarnessError(f'{prop}: {e} on {tag}')
                if nt and not samples and (ctr['tables'] + common.seed()) % 7 == 0:
                    samples.append(case.ident(concepts=len(case.ref.concepts)))
            if vs:
                viols.extend(vs[:2])
                if len(viols) >= max_violations:
                    break
        if len(viols) >= max_violations:
            break
    return {'counters': dict(ctr), 'violations': viols, 'samples': samples,
            'outcomes': [list(o) for o in outcomes]}


def extra_labeling_pass(shard, tier, prop, check_case, labelings, res, max_cells=9):
    """Every table of a small S shard once more under further labelings (merged into res)."""
    if shard[0] != 'S' or shard[1] * shard[2] > max_cells:
        return res
    ctr = collections.Counter()
    for n, m, rows, tag in space.tables_of_shard(shard):
        for labeling in labelings:
            case = Case(rows, tag, labeling)
            try:
                vs = check_case(case, ctr)
            except RefError as e:
                raise common.HarnessError(f'{prop}: {e} on {tag}')
            except common.HarnessError:
                raise
            except ForeignLabel as e:
                vs = [common.violation(prop, 'foreign-label', case.ident(),
                                       'labels of the right axis', str(e))]
            except Exception as e:
                vs = [common.library_exception(prop, case.ident(), e)]
            track(case, vs, tier)
            ctr['evaluations'] += 1
            ctr['hit_labeling_' + labeling] += 1
            res['violations'].extend(vs[:2])
    for k_, v_ in ctr.items():
        res['counters'][k_] = res['counters'].get(k_, 0) + v_
    return res


def hist_shards(tier):
    """Call-history exploration (mc/hist2.py): every table with both sides >= 2 and
    <= 9 cells, in small shards (the work per table grows with the 4th power of the
    number of concepts)."""
    from . import hist2
    return [('H',) + s[1:] for s in space.s_shards(hist2.max_cells(tier), chunk=8)
            if s[1] >= 2 and s[2] >= 2]


def run_hist_shard(shard, tier, prop):
    from . import hist2
    ctr = collections.Counter()
    viols = []
    if not WORKER_SHARDS or WORKER_SHARDS[-1] != shard:
        WORKER_SHARDS.append(shard)
    for n, m, rows, tag in space.tables_of_shard(('S',) + tuple(shard[1:])):
        case = Case(rows, tag, space.ASC)
        try:
            vs = hist2.check(case, prop, ctr, tier=tier)
        except RefError as e:
            raise common.HarnessError(f'{prop}: {e} on {tag}')
        except common.HarnessError:
            raise
        except Exception as e:
            vs = [common.library_exception(prop, case.ident(), e)]
        track(case, vs, tier)
        viols.extend(vs[:1])
        if len(viols) >= 3:
            break
    return {'counters': dict(ctr), 'violations': viols, 'samples': [], 'outcomes': []}


def main_e1(mod, tier):
    t0 = time.time()
    res = common.Result(mod.ID)
    res.expected_hits = tuple(getattr(mod, 'HITS', ()))
    budget = getattr(mod, 'BUDGET', {'quick': 300, 'thorough': 3600})[tier]
    common.run_pool(res, mod.__name__, 'run_shard', mod.shards(tier), tier, budget_s=budget)
    if hasattr(mod, 'post'):
        mod.post(res, tier)
    return common.finish(res, tier, mod.LEVEL, mod.RULE, mod.ASSUMPTIONS, t0)


def _tup(x):
    return tuple(_tup(y) for y in x) if isinstance(x, list) else x


def replay_worker(mod, v):
    """Second stage of a replay: re-execute everything the worker process had done before the
    recorded case - all its earlier shards and the shard of the case - in this fresh process,
    and return the violations found for the same table (same tag, labeling and variant)."""
    w = v['case']['worker']
    RECENT.clear(); ALIVE.clear(); del WORKER_SHARDS[:]
    key = (v['case'].get('tag'), v['case'].get('labeling'), v['case'].get('variant'))
    found = []
    for shard in w['shards']:
        try:
            res = mod.run_shard(_tup(shard), w['tier'])
        finally:
            common.clear_bitsets_registry()       # as the pool worker does after every shard
        found = [x for x in res.get('violations', ())
                 if (x['case'].get('tag'), x['case'].get('labeling'), x['case'].get('variant')) == key]
    return found


def replay_e1(mod, v):
    """Re-execute one recorded case without the explorer."""
    import collections as _c
    ctr = _c.Counter()
    for prev in v['case'].get('after', ()):      # predecessors in the same process first
        pcase = case_from_ident(prev)
        try:
            mod.check_case(pcase, ctr)
        except (RefError, common.HarnessError):
            raise
        except Exception:
            pass
        ALIVE.append(pcase)
    case = case_from_ident(v['case'])
    try:
        if 'history' in v['case']:
            from . import hist2
            return hist2.check(case, mod.ID, ctr, tier=v['case'].get('worker', {}).get('tier', 'quick'))
        vs = mod.check_case(case, ctr)
        if case.variant == 'used' and not vs:
            vs = mod.check_case(case, ctr)
            for x in vs:
                x['clause'] += '@second-pass'
        return vs
    except (RefError, common.HarnessError):
        raise
    except ForeignLabel as e:
        return [common.violation(mod.ID, 'foreign-label', case.ident(),
                                 'labels of the right axis', str(e))]
    except Exception as e:
        return [common.library_exception(mod.ID, case.ident(), e)]
