"""Bigger definitions for the history / derivation / determinism checks.

The BFS universes of C13 have at most 3-4 names per axis; thresholds such as
"more than 4 names dropped", "8 or more names merged in", "more than 256 names"
need longer axes.  This module provides a small set of big model states, big
operand definitions and a bounded alphabet of operation instances with long
argument lists.  Everything is enumerated completely: every base state x every
operation (x every follow-up operation = depth 2).

Nothing here imports ``concepts``.
"""

from . import tablemodel as tm

ON = tuple(f'o{i:02d}' for i in range(12))
PN = tuple(f'p{j:02d}' for j in range(9))
EXTRA_O = ('zo1', 'zo2')
EXTRA_P = ('zp1', 'zp2')
UNIVERSE = (ON + EXTRA_O, PN + EXTRA_P)


def _cells(objs, props):
    """The fixed big relation every operand agrees on (so unions are compatible)."""
    return frozenset((o, p) for o in objs for p in props
                     if (int(o[1:]) * 2 + int(p[1:])) % 3 == 0)


def state(objs, props, extra=()):
    return (tuple(objs), tuple(props), _cells(objs, props) | frozenset(extra))


def base_states():
    return [
        ('full', state(ON, PN)),
        ('small', state(ON[:3], PN[:2])),
        ('empty', tm.EMPTY),
        ('mid-reversed', state(tuple(reversed(ON[2:9])), PN[1:7])),
        ('identical-rows', (ON[:8], PN[:4], frozenset((o, p) for o in ON[:8] for p in PN[:2]))),
        # most names empty on both axes, the few used ones scattered and not in name order:
        # remove_empty_* drops more than half of a long axis and keeps several names
        ('mostly-empty', (ON[:9], PN[:7],
                          frozenset((o, p) for o in (ON[6], ON[1], ON[3]) for p in (PN[5], PN[0])))),
    ]


def operands():
    """Definitions offered to union / intersection."""
    conflict = state(ON[:2], PN[:2])
    flip = (ON[0], PN[0])
    conflict = (conflict[0], conflict[1],
                conflict[2] ^ frozenset([flip]))
    return [
        ('reversed-full', state(tuple(reversed(ON)), tuple(reversed(PN)))),
        ('four-of-twelve', state((ON[9], ON[2], ON[7], ON[0]), (PN[5], PN[1]))),
        ('nine-new', state(ON[3:], PN)),
        ('two-by-eight', state(ON[:2], tuple(reversed(PN[1:])))),
        ('foreign', state(ON[10:] + ON[:1], PN[7:] + PN[:1])),
        ('conflict', conflict),
        # shares one name per axis with the big states and brings names of its own
        ('mostly-foreign', ((ON[0],) + EXTRA_O, (PN[0], EXTRA_P[0]),
                            frozenset([(EXTRA_O[0], EXTRA_P[0])]) | _cells((ON[0],), (PN[0],)))),
    ]


def big_ops(s):
    """Operation instances with long argument lists (and the short classics)."""
    objs, props, cells = s
    ops = []
    longp = [tuple(reversed(PN)), PN[1:], PN[::2] + EXTRA_P, PN[4:] + PN[:4] + PN[4:5]]
    longo = [tuple(reversed(ON)), ON[1:9], ON[::3] + EXTRA_O, ON[6:] + ON[:6] + ON[6:7]]
    for o in (ON[0], ON[-1], EXTRA_O[0]):
        for seq in longp:
            ops.append(('add_object', o, seq))
            ops.append(('set_object', o, seq))
    for p in (PN[0], PN[-1], EXTRA_P[0]):
        for seq in longo:
            ops.append(('add_property', p, seq))
            ops.append(('set_property', p, seq))
    for name, t in operands():
        for ign in (False, True):
            ops.append(('union_update', t, ign))
            ops.append(('intersection_update', t, ign))
        ops.append(('ior', t))
        ops.append(('iand', t))
    ops += [('remove_empty_objects',), ('remove_empty_properties',)]
    for o in (ON[0], ON[5], ON[-1]):
        ops.append(('remove_object', o))
        ops.append(('rename_object', o, EXTRA_O[1]))
        for i in (-1, 0, 5, len(objs), len(objs) + 3):
            ops.append(('move_object', o, i))
        ops.append(('setitem', o, EXTRA_P[1], True))
    for p in (PN[0], PN[4], PN[-1]):
        ops.append(('remove_property', p))
        ops.append(('rename_property', p, EXTRA_P[1]))
        for i in (-1, 0, 3, len(props)):
            ops.append(('move_property', p, i))
        ops.append(('setitem', EXTRA_O[1], p, False))
    return ops


def followups(s):
    """Second step: operations that make hidden residue of the first one visible."""
    ops = [('add_object', ON[9], (PN[0],)), ('add_object', ON[1], (PN[8], PN[2])),
           ('setitem', ON[4], PN[3], True), ('setitem', ON[10], PN[7], True),
           ('add_property', PN[8], (ON[11], ON[0])), ('remove_empty_objects',),
           ('remove_empty_properties',), ('rename_object', ON[2], ON[9]),
           ('rename_property', PN[1], PN[7]),
           ('add_object', EXTRA_O[0], (PN[0],)), ('setitem', EXTRA_O[1], EXTRA_P[0], True),
           ('add_property', EXTRA_P[0], (ON[0],)), ('rename_object', ON[0], EXTRA_O[0])]
    for name, t in operands()[:3]:
        ops.append(('union_update', t, True))
        ops.append(('intersection_update', t, True))
    return ops
