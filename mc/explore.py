"""E2 `histspace`: explicit-state breadth-first search over the real
``Definition`` transition functions, against the ordered-table model R2.

    frontier = {Definition()}; seen = {canon(real)}
    while frontier:                         # level-synchronous, levels sharded over the pool
        for (real, model, hist) in frontier:
            for op in alphabet(model):      # every instance over the bounded universe
                real2 = fresh copy of real  # pickle round trip, NOT Definition.copy()
                compare apply(real2, op) with model.apply(op)      # step oracle
                k = canon(real2)
                if k not in seen: seen.add(k); push

``canon`` is a generic structural snapshot of ``vars(definition)``: it names no
attribute, merges only byte-identical internals (which trivially have the same
futures) and is used only to decide state identity, never as an oracle.
"""

import collections
import itertools
import json
import multiprocessing
import operator
import pickle
import time

from . import common, env, tablemodel as tm


# ---------------------------------------------------------------- canon

def canon(obj, _depth=0):
    if _depth > 12:
        raise common.HarnessError('canon: structure too deep')
    if isinstance(obj, str):
        return str.__str__(obj)
    if isinstance(obj, (int, float, bool, type(None))):
        return obj
    if isinstance(obj, (list, tuple)):
        return ('L', tuple(canon(x, _depth + 1) for x in obj))
    if isinstance(obj, (set, frozenset)):
        return ('S', frozenset(canon(x, _depth + 1) for x in obj))
    if isinstance(obj, dict):
        return ('D', frozenset((canon(k, _depth + 1), canon(v, _depth + 1))
                               for k, v in obj.items()))
    if hasattr(obj, '__dict__'):
        return ('O', type(obj).__name__, canon(vars(obj), _depth + 1))
    if hasattr(obj, '__slots__'):
        return ('O', type(obj).__name__,
                tuple((s, canon(getattr(obj, s, None), _depth + 1)) for s in obj.__slots__))
    return ('R', repr(obj))


# ---------------------------------------------------------------- op encoding

def enc_op(op):
    out = []
    for a in op:
        if isinstance(a, tuple) and len(a) == 3 and isinstance(a[2], frozenset):
            out.append(['T', list(a[0]), list(a[1]), sorted(map(list, a[2]))])
        elif isinstance(a, tuple):
            out.append(list(a))
        else:
            out.append(a)
    return out


def dec_op(lst):
    out = []
    for a in lst:
        if isinstance(a, list) and a and a[0] == 'T':
            out.append((tuple(a[1]), tuple(a[2]), frozenset(tuple(c) for c in a[3])))
        elif isinstance(a, list):
            out.append(tuple(a))
        else:
            out.append(a)
    return tuple(out)


# ---------------------------------------------------------------- real side

L = env.HashLabel


def make_real(state):
    import concepts
    objs = [L(o) for o in state[0]]
    props = [L(p) for p in state[1]]
    return concepts.Definition(objs, props, tm.bools(state))


def visible(real):
    """The public triple, names as plain str."""
    return (tuple(str.__str__(o) for o in real.objects),
            tuple(str.__str__(p) for p in real.properties),
            [tuple(bool(b) for b in row) for row in real.bools])


def apply_real(real, op):
    """Apply an alphabet operation to the real Definition; returns the return value."""
    name = op[0]
    if name == 'setitem':
        _, o, p, v = op
        real[L(o), L(p)] = v
        return None
    if name in ('rename_object', 'rename_property'):
        return getattr(real, name)(L(op[1]), L(op[2]))
    if name in ('move_object', 'move_property'):
        return getattr(real, name)(L(op[1]), op[2])
    if name in ('add_object', 'add_property', 'set_object', 'set_property'):
        return getattr(real, name)(L(op[1]), [L(x) for x in op[2]])
    if name in ('remove_object', 'remove_property'):
        return getattr(real, name)(L(op[1]))
    if name in ('remove_empty_objects', 'remove_empty_properties'):
        return getattr(real, name)()
    if name in ('union_update', 'intersection_update'):
        return getattr(real, name)(make_real(op[1]), ignore_conflicts=op[2])
    if name == 'ior':
        r = operator.ior(real, make_real(op[1]))
        return ('self' if r is real else 'other-object')
    if name == 'iand':
        r = operator.iand(real, make_real(op[1]))
        return ('self' if r is real else 'other-object')
    raise common.HarnessError(f'unknown op {op!r}')


def norm_ret(name, ret):
    if name in ('ior', 'iand'):
        return ret
    if isinstance(ret, (list, tuple)):
        return [str.__str__(x) for x in ret]
    return ret


def model_ret(name, ret):
    if name in ('ior', 'iand'):
        return 'self'
    return ret


# ---------------------------------------------------------------- step oracle (C13)

OBSERVERS = tuple(('observe', k) for k in
                  ('inverted', 'transposed', 'copy', 'take-reversed', 'take-none', 'text', 'bools',
                   'iterate', 'names'))


def observe(real, model, kind, ctr):
    """Read-only calls as transitions of the search: the model state does not change, the
    answer must be the model's derivation, the visible triple must stay what it was - and
    whatever the call leaves behind inside the real object (a cache, a handed-out container)
    makes it a distinct state that the search expands like any other."""
    V = []

    def bad(clause, exp, got):
        V.append({'clause': clause, 'expected': common.jsonable(exp), 'observed': common.jsonable(got)})

    before = visible(real)
    ctr['transitions'] += 1
    ctr['observations'] += 1
    try:
        if kind == 'inverted':
            got, exp = visible(real.inverted()), tm.triple(tm.inverted(model))
            got2 = visible(~real)
        elif kind == 'transposed':
            got, exp = visible(real.transposed()), tm.triple(tm.transposed(model))
            got2 = visible(-real)
        elif kind == 'copy':
            c = real.copy()
            got, exp = visible(c), tm.triple(model)
            got2 = got
            if model[0] and model[1]:       # the copy is the caller's to edit
                c[c.objects[0], c.properties[0]] = (model[0][0], model[1][0]) not in model[2]
                c.move_object(c.objects[0], len(c.objects) - 1)
        elif kind == 'take-reversed':
            o, p = [L(x) for x in reversed(model[0])], [L(x) for x in reversed(model[1])]
            got = visible(real.take(o, p, reorder=True))
            exp = tm.triple(tm.take(model, tuple(reversed(model[0])), tuple(reversed(model[1])), True))
            got2 = visible(real.take(tuple(o), tuple(p)))
            if got2 == tm.triple(model):
                got2 = got
        elif kind == 'take-none':
            got, exp = visible(real.take()), tm.triple(model)
            got2 = visible(real.take(None, [L(x) for x in model[1]]))
        elif kind == 'text':
            def text():
                return (real.tostring(), str(real), repr(real), real.crc32(), tuple(real.shape),
                        real.fill_ratio if model[0] and model[1] else None)
            got = text()
            exp = got2 = text()
        elif kind == 'bools':
            handed = real.bools
            got = [tuple(bool(b) for b in r) for r in handed]
            exp = got2 = tm.triple(model)[2]
            if isinstance(handed, list):      # the returned table is the caller's to change
                handed.reverse()
                handed.append(('junk',))
        elif kind == 'iterate':
            got = tuple(real)
            got = (tuple(map(str.__str__, got[0])), tuple(map(str.__str__, got[1])),
                   [tuple(bool(b) for b in r) for r in got[2]])
            exp = got2 = tm.triple(model)
        else:
            ho, hp = real.objects, real.properties
            got = (tuple(map(str.__str__, ho)), tuple(map(str.__str__, hp)))
            exp = got2 = tm.triple(model)[:2]
            for h in (ho, hp):
                if isinstance(h, list):
                    h.reverse()
                    h.append(L('junk'))
        if got != exp or got2 != exp:
            bad(f'observe-{kind}', exp, got if got != exp else got2)
    except Exception as e:
        bad(f'observe-{kind}', 'an answer', f'{type(e).__name__}: {e}')
    try:
        after = visible(real)
        if after != before:
            bad('read-only-call-leaves-unchanged', before, after)
    except Exception as e:
        bad('triple-readable', 'objects/properties/bools readable', f'{type(e).__name__}: {e}')
    return V, model


def step(real, model, op, universe, ctr):
    """Apply op to both sides and compare.  Returns (violations, new_model or None).
    ``real`` is mutated in place (callers pass a fresh copy)."""
    import concepts
    onames, pnames = universe
    if op[0] == 'observe':
        return observe(real, model, op[1], ctr)
    try:
        before = visible(real)
    except Exception as e:
        return [{'clause': 'triple-readable', 'expected': 'objects/properties/bools readable',
                 'observed': f'{type(e).__name__}: {e}'}], None
    try:
        new_model, mret = tm.apply(model, op)
        rejected = False
    except tm.Reject:
        new_model, mret, rejected = model, None, True
    except tm.Open:
        return [], None
    V = []

    def bad(clause, exp, got):
        V.append({'clause': clause, 'expected': common.jsonable(exp), 'observed': common.jsonable(got)})

    try:
        ret = apply_real(real, op)
        raised = None
    except Exception as e:  # the library's reaction is what is judged
        ret, raised = None, e
    ctr['transitions'] += 1
    try:
        after = visible(real)
    except Exception as e:
        bad('triple-readable', 'objects/properties/bools readable', f'{type(e).__name__}: {e}')
        return V, new_model
    if rejected:
        ctr['rejected_calls'] += 1
        if raised is None:
            bad('rejected-call-raises', 'an Exception', f'returned {ret!r}')
        if after != before:
            bad('rejected-call-leaves-unchanged', before, after)
    else:
        if raised is not None:
            bad('accepted-call-returns', tm.triple(new_model),
                f'{type(raised).__name__}: {raised}')
        else:
            if after != tm.triple(new_model):
                bad('triple-matches-model', tm.triple(new_model), after)
            if norm_ret(op[0], ret) != model_ret(op[0], mret):
                bad('return-value', model_ret(op[0], mret), norm_ret(op[0], ret))
            if len(new_model[0]) > len(model[0]) or len(new_model[1]) > len(model[1]):
                ctr['calls_creating_names'] += 1
    # (c) equality with a fresh definition built from its own triple, both directions
    try:
        fresh = concepts.Definition([L(o) for o in after[0]], [L(p) for p in after[1]], after[2])
    except Exception as e:
        bad('equals-fresh-from-own-triple', 'a definition can be built from its own triple',
            f'{type(e).__name__}: {e} for triple {after!r}')
    else:
        if not (real == fresh) or not (fresh == real) or (real != fresh):
            bad('equals-fresh-from-own-triple', True, False)
    # (d) shape of bools
    if len(after[2]) != len(after[0]) or any(len(r) != len(after[1]) for r in after[2]):
        bad('bools-shape', [len(after[0]), len(after[1])], [len(r) for r in after[2]])
    # (e) cell reads agree with the model the real object is supposed to be in
    cur = new_model
    for o in onames:
        for p in pnames:
            known = o in cur[0] and p in cur[1]
            try:
                val = real[L(o), L(p)]
                err = None
            except KeyError:
                val, err = None, 'KeyError'
            except Exception as e:
                val, err = None, type(e).__name__
            if known:
                if err or bool(val) != ((o, p) in cur[2]):
                    bad('cell-read', (o, p) in cur[2], err or val)
                    break
            elif err != 'KeyError':
                bad('cell-read-absent-name', 'KeyError', err or val)
                break
    return V, new_model


# ---------------------------------------------------------------- BFS

_CFG = {}


def _expand(chunk):
    """Worker: expand a slice of the current level."""
    common.ensure_repo_import()
    universe, pool, ranks = _CFG['universe'], _CFG['pool'], _CFG['ranks']
    env.HashLabel.ranks = dict(ranks)
    ctr = collections.Counter()
    succ = {}
    viols = []
    for blob, model, key in chunk:
        for op in itertools.chain(OBSERVERS if _CFG.get('observers', True) else (),
                                  tm.alphabet(model, universe[0], universe[1], pool)):
            real = pickle.loads(blob)
            V, new_model = step(real, model, op, universe, ctr)
            if new_model is None and not V:
                continue
            if new_model is None:
                new_model = model
            for v in V:
                if len(viols) < 5:
                    v['parent'] = key
                    v['op'] = enc_op(op)
                    viols.append(v)
            k = canon(real)
            if k != key and k not in succ:
                succ[k] = (pickle.dumps(real), new_model, key, enc_op(op))
    return dict(ctr), succ, viols


def bfs(universe, pool, ranks, prop, max_states=400000, budget_s=None, serial=False):
    """Run the search to a fixpoint.  Returns dict(states, transitions, levels,
    violations (with histories), counters, exhaustive, parents)."""
    t0 = time.time()
    common.ensure_repo_import()
    env.HashLabel.ranks = dict(ranks)
    _CFG.update(universe=universe, pool=pool, ranks=ranks)
    init_real = make_real(tm.EMPTY)
    k0 = canon(init_real)
    seen = {k0: (None, None)}
    frontier = [(pickle.dumps(init_real), tm.EMPTY, k0)]
    ctr = collections.Counter()
    viols = []
    levels = 0
    exhaustive = True
    ctx = multiprocessing.get_context('fork')
    nproc = common.NPROC
    import contextlib
    with (contextlib.nullcontext() if serial else ctx.Pool(nproc)) as pool_:
        while frontier:
            levels += 1
            size = max(1, min(64, len(frontier) // (nproc * 4) or 1))
            chunks = [frontier[i:i + size] for i in range(0, len(frontier), size)]
            nxt = []
            # serial: one process, fixed order - the deterministic schedule used to replay a
            # violation that depends on process-global state of the library
            it = iter(map(_expand, chunks)) if serial else pool_.imap_unordered(_expand, chunks)
            while True:
                try:
                    c, succ, vs = next(it) if serial else it.next(timeout=common.STALL_S)
                except StopIteration:
                    break
                except multiprocessing.TimeoutError:
                    pool_.terminate()
                    raise common.HarnessError('BFS worker lost (no chunk finished in time)')
                if serial and vs:
                    viols.extend(vs)
                    break
                ctr.update(c)
                for v in vs:
                    viols.append(v)
                for k, (blob, model, pkey, op) in succ.items():
                    if k not in seen:
                        seen[k] = (pkey, op)
                        nxt.append((blob, model, k))
            if viols:
                break
            if len(seen) > max_states or (budget_s and time.time() - t0 > budget_s):
                exhaustive = False
                break
            # deterministic order of the next level, independent of pool timing
            nxt.sort(key=lambda x: repr(x[2]))
            frontier = nxt
    return {'states': len(seen), 'transitions': ctr['transitions'], 'levels': levels,
            'violations': viols, 'counters': ctr, 'exhaustive': exhaustive, 'seen': seen,
            'k0': k0}


def history_of(seen, key):
    """Operation list leading from Definition() to the state with this canon key."""
    ops = []
    while key is not None:
        pkey, op = seen[key]
        if op is not None:
            ops.append(op)
        key = pkey
    return list(reversed(ops))


def replay_history(history, op, universe, ranks):
    """Re-execute history + op on a fresh Definition() against the model.
    Returns the list of step-oracle violations of the final op."""
    common.ensure_repo_import()
    env.HashLabel.ranks = dict(ranks)
    real = make_real(tm.EMPTY)
    model = tm.EMPTY
    ctr = collections.Counter()
    for h in history:
        V, model2 = step(real, model, dec_op(h), universe, ctr)
        if model2 is None:
            raise common.HarnessError('open operation inside a recorded history')
        model = model2
        # earlier steps may themselves be violating (hidden-state histories); keep going
    V, _ = step(real, model, dec_op(op), universe, ctr)
    return V
