"""Fresh-interpreter side of C11: load every payload of a batch file (pickles,
JSON text) and print one observation digest per payload."""

import io
import os
import pickle
import sys

HERE = os.path.dirname(os.path.abspath(__file__))
sys.path.insert(0, os.path.dirname(HERE))

from mc import common  # noqa: E402

common.ensure_repo_import()

import concepts  # noqa: E402
from mc.props import C11  # noqa: E402


def main(path, out=None):
    with open(path, 'rb') as f:
        batch = pickle.load(f)
    again = []
    for kind, blob in batch:
        nxt = blob
        try:
            if kind == 'json':
                ctx = concepts.Context.fromjson(io.StringIO(blob.decode('utf-8')))
                print(C11.digest(C11.full_obs(ctx)))
                buf = io.StringIO()
                ctx.tojson(buf)
                nxt = buf.getvalue().encode('utf-8')
            elif kind == 'pickle-context':
                obj = pickle.loads(blob)
                nxt = pickle.dumps(obj)      # before any query: the loaded state itself
                print(C11.digest(C11.full_obs(obj)))
            elif kind == 'pickle-lattice':
                obj = pickle.loads(blob)
                nxt = pickle.dumps(obj)
                print(C11.digest(C11.lattice_obs(obj)))
            else:
                print('unknown-kind')
        except Exception as e:   # the library failed in the fresh process: reported by the parent
            print(f'EXC:{type(e).__name__}:{e}'.replace('\n', ' '))
        again.append((kind, nxt))
    if out:
        with open(out, 'wb') as f:     # what this process loaded, serialized again by it
            pickle.dump(again, f)


if __name__ == '__main__':
    main(*sys.argv[1:3])
