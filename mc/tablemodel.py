"""R2: the ordered-table model of a Definition.

A state is ``(objects, properties, cells)``: two tuples of names and a frozenset
of (object, property) pairs.  One small pure function per editing operation:
"append names not yet present in the order given; then set/clear cells".
A call is *rejected* (``Reject``) when it names an unknown object/property where
an existing one is required, renames onto an existing name, or unions /
intersects definitions that disagree on a shared cell.  ``OPEN`` marks calls
whose outcome the property text leaves open (never judged).

Nothing here imports ``concepts``.
"""

import itertools


class Reject(Exception):
    """The model rejects the call: the real object must raise and stay unchanged."""


class Open(Exception):
    """Outcome not specified by the property: the call is not in the alphabet."""


EMPTY = ((), (), frozenset())


def _append_new(seq, names):
    out = list(seq)
    for n in names:
        if n not in out:
            out.append(n)
    return tuple(out)


def bools(state):
    objs, props, cells = state
    return [tuple((o, p) in cells for p in props) for o in objs]


def triple(state):
    return (tuple(state[0]), tuple(state[1]), bools(state))


def from_triple(objs, props, rows):
    return (tuple(objs), tuple(props),
            frozenset((o, p) for o, row in zip(objs, rows) for p, b in zip(props, row) if b))


# ---------------------------------------------------------------- operations
# each returns (new_state, return_value)

def op_setitem(s, o, p, v):
    objs, props, cells = s
    objs = _append_new(objs, [o])
    props = _append_new(props, [p])
    cells = cells | {(o, p)} if v else cells - {(o, p)}
    return (objs, props, cells), None


def _rename(seq, old, new):
    if old == new:
        raise Open('rename x -> x')
    if old not in seq or new in seq:
        raise Reject('unknown or clashing name')
    return tuple(new if x == old else x for x in seq)


def op_rename_object(s, old, new):
    objs, props, cells = s
    objs = _rename(objs, old, new)
    cells = frozenset(((new if o == old else o), p) for o, p in cells)
    return (objs, props, cells), None


def op_rename_property(s, old, new):
    objs, props, cells = s
    props = _rename(props, old, new)
    cells = frozenset((o, (new if p == old else p)) for o, p in cells)
    return (objs, props, cells), None


def _move(seq, name, index):
    if name not in seq:
        raise Reject('unknown name')
    # plain list semantics: take the name out, insert it at the index (Python's
    # list.insert defines every integer index, negative and out of range too)
    rest = [x for x in seq if x != name]
    rest.insert(index, name)
    return tuple(rest)


def op_move_object(s, o, index):
    return (_move(s[0], o, index), s[1], s[2]), None


def op_move_property(s, p, index):
    return (s[0], _move(s[1], p, index), s[2]), None


def op_add_object(s, o, plist):
    objs, props, cells = s
    return (_append_new(objs, [o]), _append_new(props, plist),
            cells | {(o, p) for p in plist}), None


def op_add_property(s, p, olist):
    objs, props, cells = s
    return (_append_new(objs, olist), _append_new(props, [p]),
            cells | {(o, p) for o in olist}), None


def op_set_object(s, o, plist):
    objs, props, cells = s
    objs = _append_new(objs, [o])
    props = _append_new(props, plist)
    cells = frozenset(c for c in cells if c[0] != o) | {(o, p) for p in plist}
    return (objs, props, cells), None


def op_set_property(s, p, olist):
    objs, props, cells = s
    objs = _append_new(objs, olist)
    props = _append_new(props, [p])
    cells = frozenset(c for c in cells if c[1] != p) | {(o, p) for o in olist}
    return (objs, props, cells), None


def op_remove_object(s, o):
    objs, props, cells = s
    if o not in objs:
        raise Reject('unknown object')
    return (tuple(x for x in objs if x != o), props,
            frozenset(c for c in cells if c[0] != o)), None


def op_remove_property(s, p):
    objs, props, cells = s
    if p not in props:
        raise Reject('unknown property')
    return (objs, tuple(x for x in props if x != p),
            frozenset(c for c in cells if c[1] != p)), None


def op_remove_empty_objects(s):
    objs, props, cells = s
    nonempty = {o for o, _ in cells}
    removed = [o for o in objs if o not in nonempty]
    return (tuple(o for o in objs if o in nonempty), props, cells), removed


def op_remove_empty_properties(s):
    objs, props, cells = s
    nonempty = {p for _, p in cells}
    removed = [p for p in props if p not in nonempty]
    return (objs, tuple(p for p in props if p in nonempty), cells), removed


def conflicts(s, t):
    """Shared cells (object and property known to both) on which s and t differ."""
    so, sp, sc = s
    to, tp, tc = t
    return [(o, p) for o in so if o in to for p in sp if p in tp
            if ((o, p) in sc) != ((o, p) in tc)]


def op_union_update(s, t, ignore_conflicts=False):
    if not ignore_conflicts and conflicts(s, t):
        raise Reject('conflicting cells')
    return (_append_new(s[0], t[0]), _append_new(s[1], t[1]), s[2] | t[2]), None


def op_intersection_update(s, t, ignore_conflicts=False):
    if not ignore_conflicts and conflicts(s, t):
        raise Reject('conflicting cells')
    objs = tuple(o for o in s[0] if o in t[0])
    props = tuple(p for p in s[1] if p in t[1])
    cells = frozenset((o, p) for (o, p) in s[2] & t[2] if o in objs and p in props)
    return (objs, props, cells), None


OPS = {
    'setitem': op_setitem,
    'rename_object': op_rename_object, 'rename_property': op_rename_property,
    'move_object': op_move_object, 'move_property': op_move_property,
    'add_object': op_add_object, 'add_property': op_add_property,
    'set_object': op_set_object, 'set_property': op_set_property,
    'remove_object': op_remove_object, 'remove_property': op_remove_property,
    'remove_empty_objects': op_remove_empty_objects,
    'remove_empty_properties': op_remove_empty_properties,
    'union_update': op_union_update, 'intersection_update': op_intersection_update,
    'ior': lambda s, t: op_union_update(s, t, False),
    'iand': lambda s, t: op_intersection_update(s, t, False),
}


def apply(state, op):
    """op = (name, *args); pool arguments are model states themselves."""
    return OPS[op[0]](state, *op[1:])


# ---------------------------------------------------------------- derived (C14)

def union(s, t, ignore_conflicts=False):
    return op_union_update(s, t, ignore_conflicts)[0]


def intersection(s, t, ignore_conflicts=False):
    return op_intersection_update(s, t, ignore_conflicts)[0]


def transposed(s):
    return (s[1], s[0], frozenset((p, o) for o, p in s[2]))


def inverted(s):
    return (s[0], s[1], frozenset((o, p) for o in s[0] for p in s[1] if (o, p) not in s[2]))


def take(s, objects=None, properties=None, reorder=False):
    objs, props, cells = s
    if objects is not None and any(o not in objs for o in objects):
        raise Open('unknown names in take')
    if properties is not None and any(p not in props for p in properties):
        raise Open('unknown names in take')
    if reorder:
        no = _append_new((), objects) if objects is not None else objs
        np_ = _append_new((), properties) if properties is not None else props
    else:
        no = tuple(o for o in objs if o in objects) if objects is not None else objs
        np_ = tuple(p for p in props if p in properties) if properties is not None else props
    return (no, np_, frozenset((o, p) for o in no for p in np_ if (o, p) in cells))


# ---------------------------------------------------------------- enumeration

def ordered_subsets(names):
    """Every sequence without repetition over names (incl. the empty one)."""
    for r in range(len(names) + 1):
        yield from itertools.permutations(names, r)


def all_states(onames, pnames):
    """Every definition over the universe (every ordered sub-universe, every fill)."""
    for objs in ordered_subsets(onames):
        for props in ordered_subsets(pnames):
            cells = [(o, p) for o in objs for p in props]
            for r in range(len(cells) + 1):
                for sub in itertools.combinations(cells, r):
                    yield (objs, props, frozenset(sub))


def alphabet(state, onames, pnames, pool=()):
    """Every operation instance over the bounded universe, simplest first."""
    objs, props, cells = state
    for o in onames:
        for p in pnames:
            for v in (True, False):
                yield ('setitem', o, p, v)
    for o in onames:
        yield ('remove_object', o)
    for p in pnames:
        yield ('remove_property', p)
    yield ('remove_empty_objects',)
    yield ('remove_empty_properties',)
    for old in onames:
        for new in onames:
            if old != new:
                yield ('rename_object', old, new)
    for old in pnames:
        for new in pnames:
            if old != new:
                yield ('rename_property', old, new)
    for o in onames:
        for i in range(-len(objs) - 1, len(objs) + 2):
            if o in objs or i == 0:
                yield ('move_object', o, i)
    for p in pnames:
        for i in range(-len(props) - 1, len(props) + 2):
            if p in props or i == 0:
                yield ('move_property', p, i)
    pseqs = list(ordered_subsets(pnames)) + [(pnames[0], pnames[0])]
    oseqs = list(ordered_subsets(onames)) + [(onames[0], onames[0])]
    if len(pnames) > 1:     # a repeated name among two distinct ones, both orders
        pseqs += [(pnames[0], pnames[1], pnames[0]), (pnames[1], pnames[0], pnames[1], pnames[0])]
    if len(onames) > 1:
        oseqs += [(onames[0], onames[1], onames[0]), (onames[1], onames[0], onames[1], onames[0])]
    for o in onames:
        for seq in pseqs:
            yield ('add_object', o, seq)
            yield ('set_object', o, seq)
    for p in pnames:
        for seq in oseqs:
            yield ('add_property', p, seq)
            yield ('set_property', p, seq)
    for t in pool:
        for ign in (False, True):
            yield ('union_update', t, ign)
            yield ('intersection_update', t, ign)
        yield ('ior', t)
        yield ('iand', t)


def selftest():
    s = EMPTY
    s, _ = apply(s, ('add_object', 'a', ('y', 'x')))
    assert triple(s) == (('a',), ('y', 'x'), [(True, True)])
    s, _ = apply(s, ('set_object', 'b', ('x',)))
    assert triple(s) == (('a', 'b'), ('y', 'x'), [(True, True), (False, True)])
    s2, removed = apply(s, ('remove_empty_objects',))
    assert removed == [] and s2 == s
    try:
        apply(s, ('rename_object', 'a', 'b'))
        raise AssertionError
    except Reject:
        pass
    assert len(list(all_states(('a', 'b'), ('x', 'y')))) == 113
    assert len(list(all_states(('a', 'b', 'c'), ('x', 'y')))) == 1160
    assert _move(('a', 'b', 'c'), 'c', -1) == ('a', 'c', 'b') and _move(('a', 'b'), 'a', 5) == ('b', 'a')
    t = from_triple(('a',), ('x',), [(False,)])
    assert conflicts(s, t) == [('a', 'x')]
    assert transposed(transposed(s)) == s and inverted(inverted(s)) == s
