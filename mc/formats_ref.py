"""Independent readers and writers of the context text formats, written from
the format descriptions only (Burmeister CXT; '|'-separated ASCII table with
blank / non-blank cells; RFC 4180 CSV; MediaWiki table; FIMI transaction rows).
Nothing here imports ``concepts``."""

import csv
import io


class FormatError(Exception):
    """The text does not follow the documented layout."""


# ---------------------------------------------------------------- CXT (Burmeister)

def read_cxt(text):
    lines = text.split('\n')
    if lines and lines[-1] == '':
        lines = lines[:-1]
    if len(lines) < 5 or lines[0] != 'B':
        raise FormatError('cxt: first line must be B')
    # line 1: context name (blank), line 2/3: counts, line 4: blank
    try:
        n, m = int(lines[2]), int(lines[3])
    except ValueError:
        raise FormatError('cxt: counts expected on lines 3 and 4')
    if lines[4] != '':
        raise FormatError('cxt: blank line expected after the counts')
    body = lines[5:]
    if len(body) != n + m + n:
        raise FormatError(f'cxt: expected {n + m + n} lines after the header, got {len(body)}')
    objects = body[:n]
    properties = body[n:n + m]
    rows = []
    for line in body[n + m:]:
        if len(line) != m or set(line) - {'X', '.'}:
            raise FormatError(f'cxt: bad row {line!r}')
        rows.append(tuple(ch == 'X' for ch in line))
    return list(objects), list(properties), rows


def write_cxt(objects, properties, rows):
    out = ['B', '', str(len(objects)), str(len(properties)), '']
    out += list(objects) + list(properties)
    out += [''.join('X' if b else '.' for b in r) for r in rows]
    return '\n'.join(out) + '\n'


# ---------------------------------------------------------------- ASCII table

def read_table(text):
    lines = [l for l in text.split('\n') if l.strip()]
    if not lines:
        raise FormatError('table: empty')

    def fields(line):
        parts = line.split('|')
        if len(parts) < 3 or parts[-1].strip() != '':
            raise FormatError(f'table: line must end with | : {line!r}')
        return parts[:-1]

    head = fields(lines[0])
    if head[0].strip() != '':
        raise FormatError('table: header line starts with a blank object cell')
    properties = [p.strip() for p in head[1:]]
    objects, rows = [], []
    for line in lines[1:]:
        f = fields(line)
        if len(f) != len(properties) + 1:
            raise FormatError(f'table: wrong number of cells in {line!r}')
        objects.append(f[0].strip())
        rows.append(tuple(bool(c.strip()) for c in f[1:]))
    return objects, properties, rows


def write_table(objects, properties, rows, indent=0):
    """Documented layout, cells wider than necessary and X centred (as in the
    README example)."""
    w0 = max(len(o) for o in objects)
    widths = [len(p) + 2 for p in properties]
    pad = ' ' * indent
    lines = [pad + ' ' * w0 + '|' + '|'.join(p.center(w) for p, w in zip(properties, widths)) + '|']
    for o, r in zip(objects, rows):
        lines.append(pad + o.ljust(w0) + '|'
                     + '|'.join(('X' if b else '').center(w) for b, w in zip(r, widths)) + '|')
    return '\n'.join(lines) + '\n'


# ---------------------------------------------------------------- CSV (RFC 4180)

def parse_csv(text, delimiter=','):
    """Hand-written RFC 4180 state machine; records end with CRLF, LF or CR."""
    records, record, field = [], [], []
    i, n = 0, len(text)
    in_quotes = False
    field_started = False
    while i < n:
        ch = text[i]
        if in_quotes:
            if ch == '"':
                if i + 1 < n and text[i + 1] == '"':
                    field.append('"')
                    i += 2
                    continue
                in_quotes = False
            else:
                field.append(ch)
        elif ch == '"' and not field:
            in_quotes = True
            field_started = True
        elif ch == delimiter:
            record.append(''.join(field))
            field = []
            field_started = True
        elif ch in '\r\n':
            if ch == '\r' and i + 1 < n and text[i + 1] == '\n':
                i += 1
            record.append(''.join(field))
            records.append(record)
            record, field, field_started = [], [], False
        else:
            field.append(ch)
            field_started = True
        i += 1
    if in_quotes:
        raise FormatError('csv: unterminated quoted field')
    if field or record or field_started:
        record.append(''.join(field))
        records.append(record)
    return records


def read_csv(text, delimiter=','):
    recs = parse_csv(text, delimiter)
    check = list(csv.reader(io.StringIO(text, newline=''), delimiter=delimiter))
    if check != recs:
        # harness self check: two independent parsers must agree on the text
        raise AssertionError(f'csv parsers disagree: {recs!r} vs {check!r}')
    if not recs:
        raise FormatError('csv: empty')
    properties = recs[0][1:]
    objects, rows = [], []
    symbols = set()
    for rec in recs[1:]:
        if len(rec) != len(properties) + 1:
            raise FormatError(f'csv: wrong number of fields in {rec!r}')
        objects.append(rec[0])
        symbols.update(rec[1:])
        rows.append(rec[1:])
    if symbols <= {'X', ''}:
        true = 'X'
    elif symbols <= {'1', '0'}:
        true = '1'
    else:
        raise FormatError(f'csv: cells must be X/blank or 1/0, found {symbols!r}')
    return objects, properties, [tuple(c == true for c in r) for r in rows], recs[0][0]


def write_csv(objects, properties, rows, delimiter=',', as_int=False, header=''):
    def q(s):
        if any(c in s for c in (delimiter, '"', '\r', '\n')):
            return '"' + s.replace('"', '""') + '"'
        return s
    sym = (lambda b: '1' if b else '0') if as_int else (lambda b: 'X' if b else '')
    lines = [delimiter.join([q(header)] + [q(p) for p in properties])]
    for o, r in zip(objects, rows):
        lines.append(delimiter.join([q(o)] + [sym(b) for b in r]))
    return '\r\n'.join(lines) + '\r\n'


# ---------------------------------------------------------------- MediaWiki table

def read_wiki(text):
    lines = text.split('\n')
    if lines and lines[-1] == '':
        lines = lines[:-1]
    if not lines or not lines[0].startswith('{|') or lines[-1] != '|}':
        raise FormatError('wiki: table must start with {| and end with |}')
    body = lines[1:-1]
    if len(body) < 2 or body[0] != '!' or not body[1].startswith('!'):
        raise FormatError('wiki: header row expected (empty corner cell, then ! cells)')
    properties = body[1][1:].split('!!')
    objects, rows = [], []
    rest = body[2:]
    if len(rest) % 3:
        raise FormatError('wiki: rows are |- / !object / |cells')
    for k in range(0, len(rest), 3):
        sep, head, cells = rest[k:k + 3]
        if sep != '|-' or not head.startswith('!') or not cells.startswith('|'):
            raise FormatError(f'wiki: bad row {rest[k:k + 3]!r}')
        objects.append(head[1:])
        vals = cells[1:].split('||')
        if len(vals) != len(properties):
            raise FormatError('wiki: wrong number of cells')
        rows.append(tuple(bool(v.strip()) for v in vals))
    return objects, properties, rows


# ---------------------------------------------------------------- FIMI

def read_fimi(text):
    lines = text.split('\n')
    if lines and lines[-1] == '':
        lines = lines[:-1]
    return [tuple(int(t) for t in line.split()) for line in lines]
