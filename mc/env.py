"""E3 `envspace` seams: the two sources of nondeterminism a sequential Python
library has, put under harness control so that *all* answers can be enumerated.

1. HashLabel: str subclass with a harness-assigned hash -> every iteration order
   of sets/dicts of labels can be produced by permuting the ranks.
2. SeamSet: replacement for the name ``set`` in selected library modules whose
   iteration order is a harness-chosen permutation (for sets of id-hashed
   objects such as Concept instances, whose order depends on addresses).
"""

import itertools
import math


# ---------------------------------------------------------------- set-order seam

def _canon_key(x):
    idx = getattr(x, 'index', None)
    if isinstance(idx, int):
        return (0, idx, '')
    return (1, 0, repr(x))


def n_orders(k):
    """Number of iteration orders explored for a set of k elements: all k! up
    to k = 4, identity + reversal + all rotations above."""
    if k <= 1:
        return 1
    if k <= 4:
        return math.factorial(k)
    return 2 * k


def apply_order(items, choice):
    k = len(items)
    if k <= 1:
        return list(items)
    if k <= 4:
        return list(nth_permutation(items, choice % math.factorial(k)))
    choice %= 2 * k
    rot, rev = choice % k, choice >= k
    out = items[rot:] + items[:rot]
    return out[::-1] if rev else out


def nth_permutation(items, n):
    items = list(items)
    out = []
    for i in range(len(items), 0, -1):
        f = math.factorial(i - 1)
        q, n = divmod(n, f)
        out.append(items.pop(q))
    return out


class SeamSet(set):
    """``set`` whose iteration order is canonical order permuted by ``choice``."""

    choice = 0
    hits = 0
    max_k = 0

    def __iter__(self):
        items = sorted(set.__iter__(self), key=_canon_key)
        cls = SeamSet
        cls.hits += 1
        if len(items) > cls.max_k:
            cls.max_k = len(items)
        return iter(apply_order(items, cls.choice))


def install_set_seam(modules=('concepts.tools', 'concepts.lattices')):
    """Rebind the module-global name ``set`` (module globals shadow builtins;
    no source change).  Returns the list of modules patched."""
    import importlib
    done = []
    for name in modules:
        mod = importlib.import_module(name)
        mod.set = SeamSet
        done.append(mod)
    SeamSet.choice = 0
    return done


def remove_set_seam(mods):
    for mod in mods:
        if 'set' in vars(mod):
            del mod.set


# ---------------------------------------------------------------- hash-order seam

class HashLabel(str):
    """A str whose hash is assigned by the harness (equality stays str's).

    CPython iterates a small set/dict-keyed-set in slot order, slot = hash & mask,
    so assigning the ranks 0..k-1 to k labels in every permutation makes every
    iteration order of every set of those labels occur."""

    __slots__ = ()
    ranks = {}

    def __hash__(self):
        try:
            return HashLabel.ranks[str.__str__(self)]
        except KeyError:
            return str.__hash__(self)

    def __eq__(self, other):
        return str.__eq__(self, other)

    def __ne__(self, other):
        return str.__ne__(self, other)

    def __reduce__(self):
        return (HashLabel, (str.__str__(self),))


def set_ranks(names, perm):
    """Assign hash ranks: names[i] -> perm[i] (small ints, collide-free)."""
    HashLabel.ranks = {n: r for n, r in zip(names, perm)}


def labels(names):
    return [HashLabel(n) for n in names]


def all_rank_perms(k):
    return itertools.permutations(range(k))
